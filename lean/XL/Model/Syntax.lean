import XL.Model.Basic
import XL.Generated.Tables
/-!
# XL.Model.Syntax — the shunting-yard parser exactly as coded

Follows `Parser.ast` (`parser.py`), `Operand.ast`, `Operator.ast/update_name`, `Separator.ast`,
`Parenthesis.ast`, `Function.ast`, `Array.ast` (`tokens/*.py`) and `AstBuilder.append`
(`builder.py`).  Tokens are what the regular expressions produce (`XL.Model.Lex`); this file
is the state machine they drive.

* `PState.st`   — the operator stack (`stack`),
* `PState.out`  — the builder's deque, newest first,
* `PState.prev` — what the code inspects of `tokens[-1]`.

Operator precedences and arities are read from the tables **generated from the source**.
-/
namespace XL

/-- kinds of operand tokens -/
inductive OKind | str | num | err | range | empty
  deriving DecidableEq, Repr, Inhabited

/-- expression tree built by `AstBuilder`; an operand keeps the text `set_expr` renders -/
inductive Ast
  | operand (k : OKind) (text : String)
  | op (name : String) (args : List Ast)
  | call (name : String) (args : List Ast)
  deriving Repr, Inhabited

/-- tokens after the regular expressions: operands, an operator run with its final symbol
(`+`/`-` still undecided between unary and binary), separators, functions, parentheses,
array brackets, the intersection blank -/
inductive Tok
  | operand (k : OKind) (text : String)
  | opr (name : String)
  | sep
  | fn (name : String)
  | lp | rp
  | arrStart | arrEnd | arrSep
  | isect
  deriving Repr, Inhabited, DecidableEq

/-- `check_n` of an opening parenthesis: the default `lambda t: t.n_args` (at least one
argument), a function's `lambda *a: True`, an array row after `;` (`n_args == k`) -/
inductive Chk | pos | any | exactly (k : Nat)
  deriving DecidableEq, Repr

inductive SItem
  | op (name : String)
  | lp (n : Nat) (c : Chk) (brace : Bool)   -- `brace`: opened by `{` or `;` (only `}` / `;` may close it)
  | fn (name : String)
  deriving Repr

/-- what later tokens look at in `tokens[-1]` -/
inductive Prev
  | operand      -- an `Operand` (also the inserted `Empty`)
  | rparen       -- `)`
  | lparen       -- `(` (also the one a function or `{` pushes)
  | sep          -- `,`
  | percent      -- the operator `%`
  | opr          -- any other operator (incl. the intersection blank)
  deriving DecidableEq, Repr

/-- `TokenError` makes `Parser.ast` try the next filter; `FormulaError` (and subclasses) aborts;
`escape` is any other exception class — it must be unreachable -/
inductive PErr | token | formula | escape (what : String)
  deriving Repr, DecidableEq

structure PState where
  st : List SItem
  out : List Ast
  prev : Prev
  deriving Repr

def lookupNat (tbl : List (String × Nat)) (k : String) : Option Nat :=
  match tbl with
  | [] => none
  | (a, v) :: rest => if a = k then some v else lookupNat rest k

/-- `Operator._precedences[name]`; an unknown name is the `KeyError` the code would raise -/
def precOf (name : String) : Option Nat := lookupNat Generated.precedences name

/-- `Operator._n_args[name]` -/
def arityOf (name : String) : Nat := (lookupNat Generated.nArgs name).getD Generated.nArgsDefault

def isRangeOp (name : String) : Bool := name = " " || name = "," || name = ":"

/-- `update_input_tokens` of the range operators: every operand must be a range, `#REF!`, or the
result of a range operator -/
def isRanges : Ast → Bool
  | .operand .range _ => true
  | .operand .err t => t = "#REF!"
  | .op name _ => isRangeOp name
  | _ => false

/-- `AstBuilder.append` for an operator: pop `n_args` items (`IndexError → FormulaError`) -/
def applyOp (name : String) (out : List Ast) : Except PErr (List Ast) :=
  if arityOf name ≤ out.length then
    if isRangeOp name && !((out.take (arityOf name)).all isRanges) then .error .formula
    else .ok (.op name (out.take (arityOf name)).reverse :: out.drop (arityOf name))
  else .error .formula

/-- `AstBuilder.append` for a function with `n` arguments -/
def applyFn (name : String) (n : Nat) (out : List Ast) : Except PErr (List Ast) :=
  if n ≤ out.length then .ok (.call name (out.take n).reverse :: out.drop n) else .error .formula

/-- the pop loop of `Operator.ast`: `while stack and isinstance(stack[-1], Operator):
if pred > stack[-1].pred: break; builder.append(stack.pop())` -/
def popWhile (p : Nat) : List SItem → List Ast → Except PErr (List SItem × List Ast)
  | .op name :: st, out =>
    match precOf name with
    | none => .error (.escape "KeyError")
    | some q =>
      if p > q then .ok (.op name :: st, out)
      else match applyOp name out with
        | .error e => .error e
        | .ok out' => popWhile p st out'
  | st, out => .ok (st, out)

/-- `while stack and not stack[-1].has_start: builder.append(stack.pop())` (the loop of
`Separator.ast` and of a closing parenthesis; a function token has no `start` either) -/
def popToStart : List SItem → List Ast → Except PErr (List SItem × List Ast)
  | .op name :: st, out =>
    match applyOp name out with
    | .error e => .error e
    | .ok out' => popToStart st out'
  | .fn _ :: _, _ => .error (.escape "function token without its parenthesis")
  | st, out => .ok (st, out)

/-- `_update_n_args(stack)` -/
def bump : List SItem → List SItem
  | .lp n c b :: st => .lp (n + 1) c b :: st
  | st => st

def chkOk : Chk → Nat → Bool
  | .pos, n => n > 0
  | .any, _ => true
  | .exactly k, n => n = k

/-- `Operand.ast` (also used for the inserted `Empty`, where no adjacency test applies) -/
def pushOperand (s : PState) (a : Ast) : PState :=
  { st := bump s.st, out := a :: s.out, prev := .operand }

/-- `n - 1` union separators after a plain parenthesis with `n > 1` arguments -/
def unionSeps : Nat → List Ast → Except PErr (List Ast)
  | 0, out => .ok out
  | k + 1, out =>
    match applyOp "," out with
    | .error e => .error e
    | .ok out' => unionSeps k out'

/-- a closing parenthesis (after the optional `Empty` insertion); returns the new state and the
argument count of the closed parenthesis (`token.get_n_args`, needed by `;`) -/
def closeParen (s : PState) (brace : Bool) : Except PErr (PState × Nat) :=
  match popToStart s.st s.out with
  | .error e => .error e
  | .ok (st', out') =>
    match st' with
    | .lp n c b :: rest =>
      if b != brace then .error .formula      -- `(` closed by `}` or `{` by `)` (`fix:` commit)
      else if !chkOk c n then .error .formula
      else
        match rest with
        | .fn f :: rest' =>
          (match applyFn f n out' with
           | .error e => .error e
           | .ok out'' => .ok ({ st := bump rest', out := out'', prev := .rparen }, n))
        | _ =>
          (match unionSeps (n - 1) out' with
           | .error e => .error e
           | .ok out'' => .ok ({ st := bump rest, out := out'', prev := .rparen }, n))
    | _ => .error .formula     -- `ParenthesesError`

/-- `Parenthesis(')').ast`: insert `Empty` after a separator, then close -/
def rparenStep (s : PState) (brace : Bool) : Except PErr (PState × Nat) :=
  closeParen (if s.prev = .sep then pushOperand s (.operand .empty "") else s) brace

/-- `Function(name).ast` with the given `check_n` -/
def fnStep (s : PState) (name : String) (c : Chk) (brace : Bool) : PState :=
  { st := .lp 0 c brace :: .fn name :: s.st, out := s.out, prev := .lparen }

/-- unary/binary decision of `Operator.update_name` for `+` and `-` -/
def finalName (name : String) (prev : Prev) : String :=
  if name = "+" ∨ name = "-" then
    (if prev = .rparen ∨ prev = .percent ∨ prev = .operand then name else "u" ++ name)
  else name

/-- `Operator.ast` for an operator token whose (folded) symbol is `name` -/
def oprStep (s : PState) (name : String) : Except PErr PState :=
  match precOf (finalName name s.prev) with
  | none => .error (.escape "KeyError")
  | some p =>
    match popWhile p (if finalName name s.prev = name then s.st else bump s.st) s.out with
    | .error e => .error e
    | .ok (st', out') =>
      .ok { st := .op (finalName name s.prev) :: st', out := out',
            prev := if finalName name s.prev = "%" then .percent else .opr }

/-- one token -/
def step (s : PState) : Tok → Except PErr PState
  | .operand k text =>
    -- two operands without an operator; also directly after `%` (`fix:` commit)
    if s.prev = .operand ∨ s.prev = .rparen ∨ s.prev = .percent then .error .token
    else .ok (pushOperand s (.operand k text))
  | .opr name =>
    -- a percent sign or a binary operator needs its (left) operand (`fix:` commits): otherwise `TokenError`;
    -- `+` and `-` become signs instead, the range operators are not checked here
    if (name ≠ "+" ∧ name ≠ "-" ∧ name ≠ " " ∧ name ≠ "," ∧ name ≠ ":") ∧
        ¬ (s.prev = .operand ∨ s.prev = .rparen ∨ s.prev = .percent) then .error .token
    -- a percentage is no reference: no range operator directly behind `%` (`fix:` commit; `x% y` was read as `(x y)%`)
    else if (name = " " ∨ name = ":") ∧ s.prev = .percent then .error .token
    else oprStep s name
  | .isect => if s.prev = .percent then .error .token else oprStep s " "
  | .sep =>
    match popToStart (if s.prev = .sep ∨ s.prev = .lparen then pushOperand s (.operand .empty "") else s).st
        (if s.prev = .sep ∨ s.prev = .lparen then pushOperand s (.operand .empty "") else s).out with
    | .error e => .error e
    | .ok (st', out') => if st'.isEmpty then .error .formula else .ok { st := st', out := out', prev := .sep }
  | .fn name =>
    -- a call cannot directly follow an operand, `)` or `%` (`fix:` commits)
    if s.prev = .operand ∨ s.prev = .rparen ∨ s.prev = .percent then .error .token else .ok (fnStep s name .any false)
  | .lp =>
    if s.prev = .operand ∨ s.prev = .rparen ∨ s.prev = .percent then .error .token
    else .ok { st := .lp 0 .pos false :: s.st, out := s.out, prev := .lparen }
  | .rp => (rparenStep s false).map (·.1)
  | .arrStart =>
    if s.prev = .operand ∨ s.prev = .rparen ∨ s.prev = .percent then .error .token
    else .ok (fnStep (fnStep s "ARRAY" .pos true) "ARRAY" .pos true)
  | .arrSep =>
    match rparenStep s true with
    | .error e => .error e
    | .ok (s', n) => .ok (fnStep s' "ARRAY" (.exactly n) true)
  | .arrEnd =>
    match rparenStep s true with
    | .error e => .error e
    | .ok (s', _) => (rparenStep s' true).map (·.1)

/-- state after the initial `Parenthesis('(')` -/
def initState : PState := { st := [.lp 0 .pos false], out := [], prev := .lparen }

/-- the end of `Parser.ast`: the final `)` must close the implicit outer parenthesis and leave one
item in the builder (after the `fix:` commit the stack is never empty inside the loop, so the
`while stack:` tail of the code has nothing left to pop) -/
def finish (s : PState) : Except PErr Ast :=
  match rparenStep s false with
  | .error .token => .error .formula
  | .error e => .error e
  | .ok (s', _) =>
    match s'.st, s'.out with
    | [], [t] => .ok t
    | _, _ => .error .formula

/-- parser on an already classified token list (a `TokenError` with no other filter to try is a
`FormulaError`) -/
def runToks : List Tok → PState → Except PErr PState
  | [], s => .ok s
  | t :: ts, s =>
    match step s t with
    | .error .token => .error .formula
    | .error e => .error e
    | .ok s' => if s'.st.isEmpty then .error .formula else runToks ts s'

def parseToks (ts : List Tok) : Except PErr Ast :=
  match runToks ts initState with
  | .error e => .error e
  | .ok s => finish s

/-! ### rendering (`set_expr`) -/

mutual
def render : Ast → String
  | .operand .str t => "\"" ++ t ++ "\""
  | .operand _ t => t
  | .op name args =>
    if name = "%" then renderArgs "" args ++ "%"
    else if name = "u-" then "-" ++ renderArgs "" args
    else if name = "u+" then "+" ++ renderArgs "" args
    else if name = " " then "(" ++ renderArgs " " args ++ ")"
    else if name = "," then "(" ++ renderArgs ", " args ++ ")"
    else if name = ":" then "(" ++ renderArgs ": " args ++ ")"
    else "(" ++ renderArgs (" " ++ name ++ " ") args ++ ")"
  | .call name args => name ++ "(" ++ renderArgs ", " args ++ ")"
def renderArgs (sepr : String) : List Ast → String
  | [] => ""
  | [a] => render a
  | a :: b :: rest => render a ++ sepr ++ renderArgs sepr (b :: rest)
end

end XL
