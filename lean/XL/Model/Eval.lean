import XL.Model.Ops
import XL.Model.Arr
/-!
# XL.Model.Eval — evaluation of a formula tree against the values of the cells it refers to

The expression type `Expr` is the parsed formula with references already resolved to rectangles
(that resolution is C04's subject) and literals already converted (`Number.compile`,
`String.compile`, `Error.compile`).  The function vocabulary is the one the workbook-level
checks generate: the 15 operators, `SUM`, `MAX`, `MIN`, `IF`, `IFERROR`, `IFNA`, `IFS`, `ISERROR`, `ABS`, `AND`,
`OR`, `NOT`, `COUNT`; every other function name raises `NotImplementedError`, which `CellWrapper.__call__` turns into
`#NAME?` for the whole cell (`XL.Model.Book.formulaValue`).

`Res.scalar` is a Python scalar (a literal); `Res.arr` is a numpy array (every reference and every
computed value).  Some functions distinguish the two (`SUM("5")` counts, a `"5"` inside a range
too, `SUM(TRUE)` counts, a `TRUE` inside a range does not).
-/
namespace XL
variable {F : Type} [Num F]

/-- a rectangle of one sheet of one book: `(sheet, r1, r2, c1, c2)` -/
structure RRef where
  sheet : Nat
  r1 : Nat
  r2 : Nat
  c1 : Nat
  c2 : Nat
  deriving DecidableEq, Repr, Inhabited

inductive BinOp | arith (o : AOp) | cmp (o : COp) | concat
  deriving DecidableEq, Repr

inductive Expr (F : Type)
  | lit (v : Val F)
  | empty                                   -- an omitted argument (`Empty` token, compiles to 0)
  | ref (r : RRef)
  | name (n : String)
  | bin (o : BinOp) (l r : Expr F)
  | un (o : UOp) (x : Expr F)
  | call (f : String) (args : List (Expr F))
  | array (rows : List (List (Val F)))
  deriving Repr, Inhabited

inductive Res (F : Type)
  | scalar (v : Val F)
  | arr (a : Arr (Val F))
  deriving Repr, Inhabited

def Res.toArr : Res F → Arr (Val F)
  | .scalar v => [[v]]
  | .arr a => a

def errArr (e : Err) : Res F := .arr [[.err e]]

/-- `replace_empty(x)` on every element -/
def blankTo (d : Val F) (a : Arr (Val F)) : Arr (Val F) :=
  a.map (·.map fun v => match v with | .blank => d | v => v)

def applyBin (o : BinOp) (a b : Val F) : Val F :=
  match o with
  | .arith op => arith op a b
  | .cmp op => cmp op a b
  | .concat => concat a b

/-- an element-wise binary operator (`wrap_ufunc`): `none` is numpy's broadcast failure -/
def evalBin (o : BinOp) (x y : Res F) : Option (Res F) :=
  (map2 (applyBin o) .blank .blank x.toArr y.toArr).map .arr

def evalUn (o : UOp) (x : Res F) : Res F := .arr (map1 (unary o) x.toArr)

/-- all elements in `flatten` order (arguments in order, each row-major) -/
def flatVals (args : List (Res F)) : List (Val F) := args.flatMap fun r => r.toArr.flatten

def firstErrL (l : List (Val F)) : Option Err := firstErr l

/-- what `SUM` adds for one element: numbers, numeric text; a scalar `TRUE/FALSE` literal counts
(`float(a)`), inside arrays `TRUE` is skipped and `FALSE` adds 0; blanks and other text are skipped -/
def sumTerm (scalar : Bool) (v : Val F) : Option F :=
  match v with
  | .num x => some x
  | .text s => Num.ofText s
  | .bool b => if scalar then some (if b then Num.one else Num.zero) else (if b then none else some Num.zero)
  | _ => none

/-- `xsum`: first error wins; a non-numeric text *literal* is `#VALUE!` -/
def evalSum (args : List (Res F)) : Res F :=
  match firstErrL (flatVals args) with
  | some e => errArr e
  | none =>
    if args.any (fun r => match r with
        | .scalar (.text s) => (Num.ofText s : Option F).isNone
        | _ => false) then errArr .value
    else
      .arr [[convertNan ((args.flatMap fun r =>
        match r with
        | .scalar v => (sumTerm true v).toList
        | .arr a => a.flatten.filterMap (sumTerm false)).foldl Num.add Num.zero)]]

/-- elements `MAX/MIN` look at (`xfunc` with `check=is_number`): literals are converted
(`_convert_args`: logicals to 0/1, numeric text to its number, other text `#VALUE!`); inside arrays
numbers and *numeric text* pass `is_number` and the text is converted to its number (logicals, blanks
and other text are skipped). -/
def extremumTerms (args : List (Res F)) : Except Err (List (Val F)) :=
  args.foldlM (fun acc r =>
    match r with
    | .scalar (.num x) => .ok (acc ++ [.num x])
    | .scalar (.bool b) => .ok (acc ++ [.num (if b then Num.one else Num.zero)])
    | .scalar (.text s) => (match (Num.ofText s : Option F) with | some x => .ok (acc ++ [.num x]) | none => .error .value)
    | .scalar .blank => .ok acc
    | .scalar (.err e) => .error e
    | .arr a =>
      .ok (acc ++ a.flatten.filterMap fun v =>
        match v with
        | .num x => some (.num x)
        | .text s => (Num.ofText s : Option F).map .num        -- numeric text counts as its number
        | _ => none)) []

def pickExtremum (isMax : Bool) : Val F → List (Val F) → Val F
  | m, [] => m
  | .num m, .num y :: rest =>
    pickExtremum isMax (.num (if isMax then (if Num.lt m y then y else m) else (if Num.lt y m then y else m))) rest
  | .text m, .text y :: rest =>
    pickExtremum isMax (.text (if isMax then (if m < y then y else m) else (if y < m then y else m))) rest
  | _, _ => .err .value

def evalExtremum (isMax : Bool) (args : List (Res F)) : Res F :=
  match firstErrL (flatVals args) with
  | some e => errArr e
  | none =>
    match extremumTerms args with
    | .error e => errArr e
    | .ok [] => .arr [[.num Num.zero]]
    | .ok (x :: xs) =>
      -- the result is the Python object `max`/`min` returns: a text result is a `str` scalar
      -- (and is treated like a literal by an enclosing function), a number behaves like an array
      match pickExtremum isMax x xs with
      | .num v => .arr [[convertNan v]]
      | .text s => .scalar (.text s)
      | r => .arr [[r]]

/-- `COUNT`: numbers inside arrays, numbers / logicals / numeric text among literals; errors are not raised -/
def evalCount (args : List (Res F)) : Res F :=
  -- `_convert_args` on a non-numeric text literal raises `ValueError` → `#VALUE!`
  if args.any (fun r => match r with
      | .scalar (.text s) => (Num.ofText s : Option F).isNone
      | _ => false) then errArr .value
  else
  .arr [[.num ((args.flatMap fun r =>
    match r with
    | .scalar (.num _) => [()]
    | .scalar (.bool _) => [()]
    | .scalar (.text _) => [()]
    | .scalar _ => []
    | .arr a => a.flatten.filterMap fun v => match v with
        | .num _ => some ()
        | .text s => if (Num.ofText s : Option F).isSome then some () else none
        | _ => none).foldl (fun n _ => Num.add n Num.one) Num.zero)]]

/-- truth value of an element for `IF` / `AND` / `OR` / `NOT` -/
def truthy (v : Val F) : Option Bool :=
  match v with
  | .num x => some (!Num.isZero x)
  | .bool b => some b
  | .blank => some false
  | _ => none

/-- `xif` on one element triple, after `replace_empty` of every argument -/
def ifElem (c x y : Val F) : Val F :=
  match c with
  | .err e => .err e
  | .text _ => .err .value
  | c =>
    match (match truthy c with | some true => x | _ => y) with
    | .num v => convertNan v
    | .blank => .num Num.zero
    | r => r

def evalIf (args : List (Res F)) : Option (Res F) :=
  match args with
  | [c, x, y] => (mapN (fun l => match l with | [a, b, d] => ifElem a b d | _ => .err .value) .blank
      [blankTo (.num Num.zero) c.toArr, blankTo (.num Num.zero) x.toArr, blankTo (.num Num.zero) y.toArr]).map .arr
  | [c, x] => (mapN (fun l => match l with | [a, b, d] => ifElem a b d | _ => .err .value) .blank
      [blankTo (.num Num.zero) c.toArr, blankTo (.num Num.zero) x.toArr, [[.bool false]]]).map .arr
  | _ => some (errArr .value)

def iferrorElem (v d : Val F) : Val F :=
  match (match v with | .err _ => d | v => v) with
  | .num x => convertNan x
  | .blank => .num Num.zero
  | r => r

def evalIferror (args : List (Res F)) : Option (Res F) :=
  match args with
  | [v, d] => (map2 iferrorElem .blank .blank (blankTo (.num Num.zero) v.toArr) (blankTo (.num Num.zero) d.toArr)).map .arr
  | _ => some (errArr .value)

/-- `xifna`: only `#N/A` selects the alternative -/
def ifnaElem (v d : Val F) : Val F :=
  match (match v with | .err .na => d | v => v) with
  | .num x => convertNan x
  | .blank => .num Num.zero
  | r => r

def evalIfna (args : List (Res F)) : Option (Res F) :=
  match args with
  | [v, d] => (map2 ifnaElem .blank .blank (blankTo (.num Num.zero) v.toArr) (blankTo (.num Num.zero) d.toArr)).map .arr
  | _ => some (errArr .value)

/-- `xifs` on one element tuple `c1, v1, c2, v2, …` (an odd tail is completed with `0`): the first
condition that is an error is returned, a text condition is `#VALUE!`, the value of the first true
condition is the result, none true is `#N/A` -/
def ifsElem : List (Val F) → Val F
  | [] => .err .na
  | [c] =>
    (match c with
     | .err e => .err e
     | .text _ => .err .value
     | c => match truthy c with | some true => .num Num.zero | _ => .err .na)
  | c :: v :: rest =>
    match c with
    | .err e => .err e
    | .text _ => .err .value
    | c => match truthy c with
      | some true => (match v with | .num x => convertNan x | .blank => .num Num.zero | r => r)
      | _ => ifsElem rest

def evalIfs (args : List (Res F)) : Option (Res F) :=
  if args.isEmpty then some (errArr .value)
  else (mapN ifsElem .blank (args.map fun a => blankTo (.num Num.zero) a.toArr)).map .arr

def evalIserror (args : List (Res F)) : Res F :=
  match args with
  | [v] => .arr (map1 (fun x => match x with | .err _ => .bool true | _ => .bool false) v.toArr)
  | _ => errArr .value

def absElem (v : Val F) : Val F :=
  match v with
  | .err e => .err e
  | v => match toNum v with
    | .ok x => convertNan (if Num.isNeg x then Num.neg x else if Num.isZero x then Num.zero else x)
    | .error e => .err e

/-- `xand`: errors first; text is ignored, blanks are dropped; nothing left → `#VALUE!` -/
def evalAndOr (isAnd : Bool) (args : List (Res F)) : Res F :=
  match firstErrL (flatVals args) with
  | some e => errArr e
  | none =>
    match (flatVals args).filterMap (fun v => match v with
        | .num x => some (!Num.isZero x) | .bool b => some b | _ => none) with
    | [] => errArr .value
    | l => .arr [[.bool (if isAnd then l.all id else l.any id)]]

def notElem (v : Val F) : Val F :=
  match v with
  | .err e => .err e
  | .text _ => .err .value
  | v => match truthy v with | some b => .bool (!b) | none => .err .value

/-- environment: values of cells and of defined names -/
structure Env (F : Type) where
  cell : Nat → Nat → Nat → Val F          -- sheet, row, column ↦ value (blank when unpopulated)
  name : String → Option (Res F)

def readRange (env : Env F) (r : RRef) : Arr (Val F) :=
  tabulate (r.r2 + 1 - r.r1) (r.c2 + 1 - r.c1) fun i j => env.cell r.sheet (r.r1 + i) (r.c1 + j)

inductive EvalErr | broadcast | notImplemented
  deriving Repr, DecidableEq

mutual
/-- value of an expression; `.error .broadcast` is the `BroadcastError` the code raises -/
def evalExpr (env : Env F) : Expr F → Except EvalErr (Res F)
  | .lit v => .ok (.scalar v)
  | .empty => .ok (.scalar (.num Num.zero))
  | .ref r => .ok (.arr (readRange env r))
  | .name n => .ok (match env.name n with | some v => v | none => errArr .ref)
  | .array rows => .ok (.arr rows)
  | .bin o l r =>
    match evalExpr env l, evalExpr env r with
    | .ok x, .ok y => (match evalBin o x y with | some v => .ok v | none => .error .broadcast)
    | .error e, _ => .error e
    | _, .error e => .error e
  | .un o x =>
    match evalExpr env x with
    | .ok v => .ok (evalUn o v)
    | .error e => .error e
  | .call f args =>
    match evalArgs env args with
    | .error e => .error e
    | .ok vs =>
      if f = "SUM" then .ok (evalSum vs)
      else if f = "MAX" then .ok (evalExtremum true vs)
      else if f = "MIN" then .ok (evalExtremum false vs)
      else if f = "COUNT" then .ok (evalCount vs)
      else if f = "IF" then (match evalIf vs with | some v => .ok v | none => .error .broadcast)
      else if f = "IFERROR" then (match evalIferror vs with | some v => .ok v | none => .error .broadcast)
      else if f = "IFNA" then (match evalIfna vs with | some v => .ok v | none => .error .broadcast)
      else if f = "IFS" then (match evalIfs vs with | some v => .ok v | none => .error .broadcast)
      else if f = "ISERROR" then .ok (evalIserror vs)
      else if f = "ABS" then (match vs with | [v] => .ok (.arr (map1 absElem (blankTo (.num Num.zero) v.toArr))) | _ => .ok (errArr .value))
      else if f = "AND" then .ok (evalAndOr true vs)
      else if f = "OR" then .ok (evalAndOr false vs)
      else if f = "NOT" then (match vs with | [v] => .ok (.arr (map1 notElem (blankTo (.num Num.zero) v.toArr))) | _ => .ok (errArr .value))
      else .error .notImplemented     -- `NotImplementedError`: the whole cell becomes `#NAME?` (`CellWrapper.__call__`)
def evalArgs (env : Env F) : List (Expr F) → Except EvalErr (List (Res F))
  | [] => .ok []
  | a :: as =>
    match evalExpr env a, evalArgs env as with
    | .ok v, .ok vs => .ok (v :: vs)
    | .error e, _ => .error e
    | _, .error e => .error e
end

/-- what the cells a result does not reach receive: `#N/A`, except that `ISERROR(...)` at the top of
the formula returns a `TrueArray` (`functions/info.py`: Excel pads the argument with `#N/A` first, and
`ISERROR(#N/A)` is `TRUE`) -/
def fillOf : Expr F → Val F
  | .call f _ => if f = "ISERROR" then .bool true else .err .na
  | _ => .err .na

/-- what a formula cell of `R × C` cells stores: the function node's `replace_empty` filter, then
the fit of `Ranges.set_value` -/
def cellResult (fill : Val F) (R C : Nat) (v : Res F) : Arr (Val F) :=
  fit fill R C (blankTo (.num Num.zero) v.toArr)

end XL
