import XL.Model.Syntax
/-!
# XL.Model.Lex — the tokeniser loop of `Parser.ast` on the lexeme alphabet of DESIGN §3 C18

`Parser.ast` tries the filters `Error, String, Number, Range, OperatorToken, Separator, Function,
Array, Parenthesis, Intersect` in this order at the head of the remaining text; a filter applies
when its regular expression matches **and** the token's `ast` method does not raise `TokenError`
(otherwise the next filter is tried); any other `FormulaError` aborts.  Each matcher below
returns the token and the number of characters consumed.

Inputs outside the modelled alphabet (sheet prefixes, R1C1 and relative references, anchors,
`@`, tabs/newlines, non-ASCII, mixed `A1:name` forms) are answered `outOfDomain`: they reach the
implementation's direct oracle only.
-/
namespace XL

def isWs (c : Char) : Bool := c == ' '

def isWordChar (c : Char) : Bool := c.isAlphanum || c == '_' || c == '.' || c == '$'

def skipWs (s : List Char) : List Char := s.dropWhile isWs

def upperS (l : List Char) : String := String.ofList (l.map Char.toUpper)

/-- `true` when `p` (upper-case) is a prefix of `s` compared case-insensitively; returns the rest -/
def stripPrefixCI : List Char → List Char → Option (List Char × List Char)
  | [], s => some ([], s)
  | _ :: _, [] => none
  | p :: ps, c :: cs =>
    if c.toUpper = p then (stripPrefixCI ps cs).map fun (m, r) => (c :: m, r) else none

def errorLiterals : List (List Char) :=
  ["#NULL!".toList, "#DIV/0!".toList, "#VALUE!".toList, "#REF!".toList, "#NUM!".toList, "#NAME?".toList, "#N/A".toList]

def matchErrorLit (s : List Char) : Option (List Char × List Char) :=
  errorLiterals.findSome? fun p => stripPrefixCI p s

/-- result of one regular expression: token and rest of the text -/
abbrev Match := Option (Tok × List Char)

/-- `\$?X+` for a character class `X`: the rest after an optional `$` and a non-empty run of `X` -/
def dollarRun (p : Char → Bool) (s : List Char) : Option (List Char) :=
  let s1 := match s with
    | '$' :: r => r
    | r => r
  if (s1.takeWhile p).isEmpty then none else some (s1.dropWhile p)

/-- `\$?[A-Z]+\$?[0-9]+` (letters of either case) -/
def deadCell (s : List Char) : Option (List Char) :=
  (dollarRun Char.isAlpha s).bind (dollarRun Char.isDigit)

/-- after `X`, `:X` for the same kind of end -/
def colonThen (f : List Char → Option (List Char)) (s : List Char) : Option (List Char) :=
  match s with
  | ':' :: r => f r
  | _ => none

/-- what `Error._re` swallows after `#REF!`: the cell part of a reference to a deleted sheet —
`(?>cell(?>:cell)?|col:col|row:row)?` with atomic groups: the first alternative that matches is kept -/
def deadRef (s : List Char) : List Char :=
  match deadCell s with
  | some r => (colonThen deadCell r).getD r
  | none =>
    match (dollarRun Char.isAlpha s).bind (colonThen (dollarRun Char.isAlpha)) with
    | some r => r
    | none => ((dollarRun Char.isDigit s).bind (colonThen (dollarRun Char.isDigit))).getD s

/-- `Error._re` without sheet prefix: `^\s*(#NULL!|…)(dead reference after #REF!)?\s*` -/
def mError (s : List Char) : Match :=
  match matchErrorLit (skipWs s) with
  | some (m, r) => some (.operand .err (String.ofList m), skipWs (if m.map Char.toUpper = "#REF!".toList then deadRef r else r))
  | none => none

/-- body of a string literal after the opening quote: `(""|[^"])*"` -/
def strBody : List Char → List Char → Option (List Char × List Char)
  | '"' :: '"' :: r, acc => strBody r ('"' :: '"' :: acc)
  | '"' :: r, acc => some (acc.reverse, r)
  | c :: r, acc => strBody r (c :: acc)
  | [], _ => none

/-- `String._re`: `^\s*"((""|[^"])*)"\s*` -/
def mString (s : List Char) : Match :=
  match skipWs s with
  | '"' :: r => (strBody r []).map fun (b, r') => (.operand .str (String.ofList b), skipWs r')
  | _ => none

def takeDigits (s : List Char) : List Char × List Char := (s.takeWhile Char.isDigit, s.dropWhile Char.isDigit)

/-- `[0-9]+(\.[0-9]+)?|\.[0-9]+` then `(E[+-][0-9]+)?` (atomic groups: longest literal, no
backtracking) -/
def numLiteral (s : List Char) : Option (List Char × List Char) :=
  let mant : Option (List Char × List Char) :=
    match s with
    | '.' :: r => if (takeDigits r).1.isEmpty then none else some ('.' :: (takeDigits r).1, (takeDigits r).2)
    | _ =>
      if (takeDigits s).1.isEmpty then none
      else match (takeDigits s).2 with
        | '.' :: r =>
          if (takeDigits r).1.isEmpty then some ((takeDigits s).1, (takeDigits s).2)
          else some ((takeDigits s).1 ++ '.' :: (takeDigits r).1, (takeDigits r).2)
        | _ => some ((takeDigits s).1, (takeDigits s).2)
  match mant with
  | none => none
  | some (m, r) =>
    match r with
    | e :: sg :: r' =>
      if (e == 'E' || e == 'e') && (sg == '+' || sg == '-') && !(takeDigits r').1.isEmpty then
        some (m ++ e :: sg :: (takeDigits r').1, (takeDigits r').2)
      else some (m, r)
    | _ => some (m, r)

/-- the negative look-ahead of `Number._re`: `(?!([a-z]|[0-9]|\.|\s*\:))` -/
def numLookaheadOk (r : List Char) : Bool :=
  match r with
  | [] => true
  | c :: _ => !(c.isAlpha || c.isDigit || c == '.') && (match skipWs r with | ':' :: _ => false | _ => true)

/-- `Number._re` -/
def mNumber (s : List Char) : Match :=
  match numLiteral (skipWs s) with
  | some (m, r) =>
    -- the optional exponent may be given back, but then the next character is the letter `E`
    if numLookaheadOk r then some (.operand .num (String.ofList m), skipWs r) else none
  | none =>
    match stripPrefixCI "TRUE".toList (skipWs s) with
    | some (m, r) =>
      if (match r with | '(' :: ')' :: _ => false | _ => true) && numLookaheadOk r then
        some (.operand .num (String.ofList m), skipWs r) else none
    | none =>
      match stripPrefixCI "FALSE".toList (skipWs s) with
      | some (m, r) =>
        if (match r with | '(' :: ')' :: _ => false | _ => true) && numLookaheadOk r then
          some (.operand .num (String.ofList m), skipWs r) else none
      | none => none

/-! ### references and names -/

def isLetter (c : Char) : Bool := c.isAlpha

/-- an optional leading `$` -/
def dropDollar (w : List Char) : List Char :=
  match w with
  | '$' :: r => r
  | r => r

/-- `$?[A-Z]{1,3}$?[1-9][0-9]*` exactly; returns the name without `$`, upper-cased -/
def cellName? (w : List Char) : Option (List Char) :=
  let w1 := dropDollar w
  let letters := w1.takeWhile isLetter
  let r1 := w1.dropWhile isLetter
  let r2 := dropDollar r1
  if letters.length ≥ 1 ∧ letters.length ≤ 3 ∧ !r2.isEmpty ∧ r2.all Char.isDigit ∧ r2.head? ≠ some '0' then
    some (letters.map Char.toUpper ++ r2)
  else none

/-- `$?[A-Z]{1,3}` exactly -/
def colName? (w : List Char) : Option (List Char) :=
  let w1 := dropDollar w
  if w1.length ≥ 1 ∧ w1.length ≤ 3 ∧ w1.all isLetter then some (w1.map Char.toUpper) else none

/-- `$?[1-9][0-9]*` exactly -/
def rowName? (w : List Char) : Option (List Char) :=
  let w1 := dropDollar w
  if !w1.isEmpty ∧ w1.all Char.isDigit ∧ w1.head? ≠ some '0' then some w1 else none

/-- `[A-Za-z_][A-Za-z0-9_.]*` -/
def isIdent (w : List Char) : Bool :=
  match w with
  | c :: r => (c.isAlpha || c == '_') && r.all (fun d => d.isAlphanum || d == '_' || d == '.')
  | [] => false

/-- words of the form `R<n>C<m>` are R1C1 references: outside the modelled alphabet -/
def isR1C1 (w : List Char) : Bool :=
  match w.map Char.toUpper with
  | 'R' :: r =>
    let d1 := r.takeWhile Char.isDigit
    match r.dropWhile Char.isDigit with
    | 'C' :: r2 => !d1.isEmpty && !r2.isEmpty && r2.all Char.isDigit && d1.head? ≠ some '0' && r2.head? ≠ some '0'
    | _ => false
  | _ => false

inductive RangeRes
  | tok (t : Tok) (rest : List Char)
  | noMatch
  | outOfDomain

/-- `Range._re` on the modelled forms (no leading blank is allowed by the expression) -/
def mRange (s : List Char) : RangeRes :=
  let w := s.takeWhile isWordChar
  let r := s.dropWhile isWordChar
  if w.isEmpty then
    -- `:B2` with an empty first corner is a reference for the expression: not modelled
    (match s with
     | ':' :: c :: _ => if isWordChar c then .outOfDomain else .noMatch
     | _ => .noMatch)
  else
    match r with
    | ':' :: r2 =>
      let w2 := r2.takeWhile isWordChar
      let r3 := r2.dropWhile isWordChar
      if w2.isEmpty then
        -- `A1:` followed by something that is not a word: the first corner alone
        (match cellName? w with
         | some n => .tok (.operand .range (String.ofList n)) r
         | none =>
           if isIdent w && !isR1C1 w && !(w.map Char.toUpper == "TRUE".toList || w.map Char.toUpper == "FALSE".toList)
              && colName? w == none
           then .tok (.operand .range (upperS w)) r else .outOfDomain)
      else
        match r3 with
        | '(' :: _ => .outOfDomain
        | ':' :: _ => .outOfDomain
        | _ =>
          match cellName? w, cellName? w2 with
          | some a, some b =>
            -- `_build_ref`: the redundant form `X:X` collapses to the single cell
            .tok (.operand .range (String.ofList (if a = b then a else a ++ ':' :: b))) r3
          | _, _ =>
            match colName? w, colName? w2 with
            | some a, some b => .tok (.operand .range (String.ofList (a ++ ':' :: b))) r3
            | _, _ =>
              match rowName? w, rowName? w2 with
              | some a, some b => .tok (.operand .range (String.ofList (a ++ ':' :: b))) r3
              | _, _ => .outOfDomain
    | '(' :: _ => .noMatch          -- `(?![\(\w])`: a function call, not a reference
    | '#' :: _ => .outOfDomain      -- anchors
    | _ =>
      if w.any (· == '$') then
        (match cellName? w with
         | some n => .tok (.operand .range (String.ofList n)) r
         | none => .outOfDomain)
      else
        match cellName? w with
        | some n => .tok (.operand .range (String.ofList n)) r
        | none =>
          if isR1C1 w then .outOfDomain
          else if isIdent w then .tok (.operand .range (upperS w)) r
          else .noMatch

/-! ### operators -/

def isOpRunChar (c : Char) : Bool :=
  c == '+' || c == '-' || c == '*' || c == '/' || c == '^' || c == '&' || c == '<' || c == '>' || c == '=' || c == ' ' || c == ':'

/-- `_re_process` on the run with all blanks removed: a sign run folded by parity, or exactly
one operator symbol -/
def processRun (run : List Char) : Option String :=
  let s := run.filter (fun c => !isWs c)
  if s.isEmpty then none
  else if s.all (fun c => c == '+' || c == '-') then
    some (if (s.filter (· == '-')).length % 2 == 0 then "+" else "-")
  else
    match s with
    | ['='] => some "=" | ['<', '='] => some "<=" | ['>', '='] => some ">=" | ['<', '>'] => some "<>"
    | ['*'] => some "*" | ['/'] => some "/" | ['^'] => some "^" | ['&'] => some "&" | ['%'] => some "%"
    | [':'] => some ":" | ['<'] => some "<" | ['>'] => some ">"
    | _ => none

/-- first alternative of `OperatorToken._re`: `\s*([<>]=|<>|[*/^&<>=])(?=\s*[+-])` -/
def opCand (t : List Char) : Option (List Char × List Char) :=
  match t with
  | '<' :: '=' :: r => some (['<', '='], r)
  | '>' :: '=' :: r => some (['>', '='], r)
  | '<' :: '>' :: r => some (['<', '>'], r)
  | c :: r => if c == '*' || c == '/' || c == '^' || c == '&' || c == '<' || c == '>' || c == '=' then some ([c], r) else none
  | [] => none

/-- the look-ahead `(?=\s*[+-])` -/
def signAhead (r : List Char) : Bool :=
  match skipWs r with
  | c :: _ => c == '+' || c == '-'
  | [] => false

def opBeforeSign (s : List Char) : Option (List Char × List Char) :=
  match opCand (skipWs s) with
  | some (m, r) => if signAhead r then some (m, r) else none
  | none => none

/-- `OperatorToken._re` and `process`; `none` = no match or `TokenError` (empty attributes) -/
def mOperator (s : List Char) : Match :=
  match opBeforeSign s with
  | some (m, r) => (processRun m).map fun n => (.opr n, r)
  | none =>
    match skipWs s with
    | '%' :: r =>
      -- `\s*%+`: all the percent signs; more than one is not a valid operator
      let ps := ('%' :: r).takeWhile (· == '%')
      if ps.length == 1 then some (.opr "%", r) else none
    | _ =>
      let run := s.takeWhile isOpRunChar
      if run.isEmpty then none
      else (processRun run).map fun n => (.opr n, s.dropWhile isOpRunChar)

/-- `Separator._re`: `^(\s*,\s*)` -/
def mSeparator (s : List Char) : Match :=
  match skipWs s with
  | ',' :: r => some (.sep, skipWs r)
  | _ => none

/-- `Function._re`: `^\s*@?([A-Z_][\w\.]*)\(\s*` (without `@`) -/
def mFunction (s : List Char) : Match :=
  let t := skipWs s
  let w := t.takeWhile (fun c => c.isAlphanum || c == '_' || c == '.')
  match w, t.dropWhile (fun c => c.isAlphanum || c == '_' || c == '.') with
  | c :: _, '(' :: r => if c.isAlpha || c == '_' then some (.fn (upperS w), skipWs r) else none
  | _, _ => none

/-- `Array._re`: `^\s*({|}|;)\s*` -/
def mArray (s : List Char) : Match :=
  match skipWs s with
  | '{' :: r => some (.arrStart, skipWs r)
  | '}' :: r => some (.arrEnd, skipWs r)
  | ';' :: r => some (.arrSep, skipWs r)
  | _ => none

/-- `Parenthesis._re`: `^\s*(\(\s*|\))` -/
def mParen (s : List Char) : Match :=
  match skipWs s with
  | '(' :: r => some (.lp, skipWs r)
  | ')' :: r => some (.rp, r)
  | _ => none

/-- `Intersect._re`: `^(\s)\s*` -/
def mIntersect (s : List Char) : Match :=
  match s with
  | c :: r => if isWs c then some (.isect, skipWs r) else none
  | [] => none

inductive LexErr | formula | outOfDomain | escape (what : String)
  deriving Repr, DecidableEq

/-- apply a matched token to the parser state: `.ok none` means `TokenError` (try the next filter).
A match that consumes nothing is a `TokenError` too (`Token.__init__`: `if self.end_match: …`,
no attributes → `TokenError`). -/
def tryTok (st : PState) (s : List Char) (m : Match) : Except LexErr (Option (PState × List Char)) :=
  match m with
  | none => .ok none
  | some (t, rest) =>
    if rest.length < s.length then
      match step st t with
      | .ok st' => .ok (some (st', rest))
      | .error .token => .ok none
      | .error .formula => .error .formula
      | .error (.escape w) => .error (.escape w)
    else .ok none

def rangeTry (st : PState) (s : List Char) : Except LexErr (Option (PState × List Char)) :=
  match mRange s with
  | .outOfDomain => .error .outOfDomain
  | .tok t rest => tryTok st s (some (t, rest))
  | .noMatch => .ok none

def firstOk : List (Unit → Except LexErr (Option (PState × List Char))) → Except LexErr (PState × List Char)
  | [] => .error .formula
  | f :: fs =>
    match f () with
    | .error e => .error e
    | .ok (some r) => .ok r
    | .ok none => firstOk fs

/-- one iteration of the `while expr:` loop: the first filter (in the order of `Parser.filters`)
that applies -/
def lexStep (st : PState) (s : List Char) : Except LexErr (PState × List Char) :=
  firstOk [
    fun _ => tryTok st s (mError s),
    fun _ => tryTok st s (mString s),
    fun _ => tryTok st s (mNumber s),
    fun _ => rangeTry st s,
    fun _ => tryTok st s (mOperator s),
    fun _ => tryTok st s (mSeparator s),
    fun _ => tryTok st s (mFunction s),
    fun _ => tryTok st s (mArray s),
    fun _ => tryTok st s (mParen s),
    fun _ => tryTok st s (mIntersect s)]

/-- the loop, with the stack-never-empty test of the `fix:` commit -/
def lexLoop : Nat → PState → List Char → Except LexErr PState
  | 0, _, _ => .error (.escape "no progress")
  | fuel + 1, st, s =>
    if s.isEmpty then .ok st
    else
      match lexStep st s with
      | .error e => .error e
      | .ok (st', rest) =>
        if st'.st.isEmpty then .error .formula
        else if rest.length < s.length then lexLoop fuel st' rest
        else .error (.escape "no progress")

/-- characters the model covers -/
def inAlphabet (c : Char) : Bool :=
  c.isAlphanum || " .\"_+-*/^&<>=%,(){};:$#!?".toList.contains c

/-- `#`, `!`, `?` only as parts of the seven error literals, and a `#` never directly after a
word character (anchors); string literals may contain anything of the alphabet.
`skip` counts characters of an error literal still to be passed over. -/
def domainScan : List Char → Nat → Bool → Bool → Bool
  | [], _, _, _ => true
  | c :: r, skip + 1, inStr, _ => let _ := c; domainScan r skip inStr false
  | c :: r, 0, true, _ => inAlphabet c && domainScan r 0 (c != '"') false
  | c :: r, 0, false, prevWord =>
    if c == '"' then domainScan r 0 true false
    else if c == '#' then
      !prevWord && (match matchErrorLit (c :: r) with
        | some (m, _) => domainScan r (m.length - 1) false false
        | none => false)
    else if c == '!' || c == '?' then false
    else inAlphabet c && domainScan r 0 false (isWordChar c)

def inDomain (s : List Char) : Bool := domainScan s 0 false false

/-- `Parser.ast` on the text after `=`: formula check, tokeniser loop, final parenthesis -/
def parseFormulaBody (body : List Char) : Except LexErr Ast :=
  match lexLoop (body.length + 1) initState body with
  | .error e => .error e
  | .ok st =>
    match finish st with
    | .ok t => .ok t
    | .error (.escape w) => .error (.escape w)
    | .error _ => .error .formula

end XL

namespace XL

/-- `Parser.ast(expression)`: `formula_check` (`^\s*=\s*(\S.*)`), then the body -/
def parseString (s : List Char) : Except LexErr Ast :=
  if !inDomain s then .error .outOfDomain
  else
    match skipWs s with
    | '=' :: r =>
      -- leading blanks belong to `formula_check`; trailing blanks mean nothing (`fix:` commit: `rstrip`)
      (match skipWs ((skipWs r).reverse.dropWhile isWs).reverse with
       | [] => .error .formula
       | body => parseFormulaBody body)
    | '#' :: _ => .error .outOfDomain       -- a bare error literal is accepted by `is_formula`
    | '{' :: _ => .error .outOfDomain       -- `{=…}` array-formula wrapper
    | _ => .error .formula

end XL
