import XL.Model.CText
import XL.Proofs.LexBlanks
/-!
# XL.Model.RText — driver command `rtext`: the exported text (`render`) of a tree and what the parser model makes of it

Request: `rtext <prefix code>` (the code of `ctext`).  Answer: `<rwf|other> <u-coded text> <parse result>`:
`rwf` when the tree has the shape `CT.shapeOK` for which `XL.LexText.render_text_parses` is proved.
-/
namespace XL.CTextProto
open XL XL.LexText

def answerRText (args : List String) : Option String := do
  let (ct, _) ← parseCT (args.length + 1) args
  let txt := '=' :: (render ct.toAst).toList
  let res := match parseString txt with
    | .ok a => "ok " ++ encodeU (render a).toList
    | .error .formula => "error"
    | .error .outOfDomain => "ood"
    | .error (.escape w) => "escape:" ++ w
  pure ((if ct.shapeOK then "rwf" else "other") ++ " " ++ encodeU txt ++ " " ++ res)

end XL.CTextProto
