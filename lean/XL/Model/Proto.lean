import XL.Model.Rect
/-!
# Line protocol helpers for the executable model (`xldriver`)

One request per line: `<command> <arg> <arg> …` (blank-separated); one answer per line.
Rectangles are `sheet,r1,r2,c1,c2`; lists use `;` and the empty list is `-`.
Anything the model does not understand is answered `bad-request` (never defaulted).
-/
namespace XL.Proto
open XL

def splitOnChar (s : String) (c : Char) : List String := s.splitOn (String.singleton c)

def parseNat? (s : String) : Option Nat := s.toNat?

def parseInt? (s : String) : Option Int := s.toInt?

def parseRect? (s : String) : Option Rect :=
  match (splitOnChar s ',').map parseNat? with
  | [some sh, some r1, some r2, some c1, some c2] => some ⟨sh, r1, r2, c1, c2⟩
  | _ => none

def parseList? {α} (f : String → Option α) (sep : Char) (s : String) : Option (List α) :=
  if s == "-" then some [] else (splitOnChar s sep).mapM f

def parseRects? (s : String) : Option (List Rect) := parseList? parseRect? ';' s

def showRect (r : Rect) : String := s!"{r.sheet},{r.r1},{r.r2},{r.c1},{r.c2}"

def showList {α} (f : α → String) (sep : String) (l : List α) : String :=
  if l.isEmpty then "-" else sep.intercalate (l.map f)

def showRects (l : List Rect) : String := showList showRect ";" l

def showOptRect : Option Rect → String
  | none => "none"
  | some r => showRect r

end XL.Proto
