/-!
# XL.Model.Rect — rectangle algebra of `formulas/ranges.py`

Model of `_intersect`, `_split`, `Ranges.__add__` (bounding box), `__or__` (union),
`__and__` (pairwise intersection), `__sub__` (set difference), `simplify`/`_merge`.

A rectangle is the dict `{'sheet_id', 'n1', 'n2', 'r1', 'r2'}` of the code: `c1,c2` are the
column indices `n1,n2`, rows are the integers the code obtains with `int(r['r1'])`.
Whole columns have `r1 = 0, r2 = maxrow`, whole rows `c1 = 0, c2 = maxcol`, exactly as
`range2parts` produces them; the model is over unbounded naturals.

No imports: this file is linked into the `xldriver` executable.
-/
namespace XL

structure Rect where
  sheet : Nat
  r1 : Nat
  r2 : Nat
  c1 : Nat
  c2 : Nat
  deriving DecidableEq, Repr, Inhabited

/-- a cell: sheet, row, column -/
structure Cell where
  sheet : Nat
  row : Nat
  col : Nat
  deriving DecidableEq, Repr

def Rect.WF (a : Rect) : Prop := a.r1 ≤ a.r2 ∧ a.c1 ≤ a.c2

instance (a : Rect) : Decidable a.WF := by unfold Rect.WF; infer_instance

def Rect.mem (p : Cell) (a : Rect) : Prop :=
  p.sheet = a.sheet ∧ a.r1 ≤ p.row ∧ p.row ≤ a.r2 ∧ a.c1 ≤ p.col ∧ p.col ≤ a.c2

instance (p : Cell) (a : Rect) : Decidable (a.mem p) := by unfold Rect.mem; infer_instance

/-- `_intersect(x, y)`; `{}` is `none`. The result carries `x['sheet_id']`. -/
def inter (x y : Rect) : Option Rect :=
  if x.sheet = y.sheet then
    if max y.c1 x.c1 ≤ min y.c2 x.c2 then
      if max y.r1 x.r1 ≤ min y.r2 x.r2 then
        some ⟨x.sheet, max y.r1 x.r1, min y.r2 x.r2, max y.c1 x.c1, min y.c2 x.c2⟩
      else none
    else none
  else none

/-- `int(x) or 1`: index 0, which a whole row / column starts at, is the first index -/
def or1 (n : Nat) : Nat := if n = 0 then 1 else n

/-- `rng[i] = z[i]` happens only where a strip was cut: an uncut side keeps the index of `rng` -/
def narrow (z r : Nat) : Nat := if or1 z ≠ or1 r then z else r

/-- `_split(base, rng)`: the up-to-four strips of `rng` outside `base`, in the order of the
loop `('n1','n2',1), ('n2','n1',-1), ('r1','r2',1), ('r2','r1',-1)`; the loop narrows
`rng` to the intersection as it goes, so the row strips only span the common columns.
A side is cut when `(int(z[i]) or 1) != (int(rng[i]) or 1)`: a whole row (columns `0 … maxcol`) met by a
rectangle that starts in column 1 leaves no strip to its left. -/
def split (base rng : Rect) : List Rect :=
  match inter base rng with
  | none => [rng]
  | some z =>
    (if or1 z.c1 ≠ or1 rng.c1 then [⟨rng.sheet, rng.r1, rng.r2, rng.c1, z.c1 - 1⟩] else []) ++
    (if or1 z.c2 ≠ or1 rng.c2 then [⟨rng.sheet, rng.r1, rng.r2, z.c2 + 1, rng.c2⟩] else []) ++
    (if or1 z.r1 ≠ or1 rng.r1 then [⟨rng.sheet, rng.r1, z.r1 - 1, narrow z.c1 rng.c1, narrow z.c2 rng.c2⟩] else []) ++
    (if or1 z.r2 ≠ or1 rng.r2 then [⟨rng.sheet, z.r2 + 1, rng.r2, narrow z.c1 rng.c1, narrow z.c2 rng.c2⟩] else [])

/-- the strips without the `or 1`: every side that differs is cut (the code before the repair; `split` returns a
sublist of it) -/
def splitRaw (base rng : Rect) : List Rect :=
  match inter base rng with
  | none => [rng]
  | some z =>
    (if z.c1 ≠ rng.c1 then [⟨rng.sheet, rng.r1, rng.r2, rng.c1, z.c1 - 1⟩] else []) ++
    (if z.c2 ≠ rng.c2 then [⟨rng.sheet, rng.r1, rng.r2, z.c2 + 1, rng.c2⟩] else []) ++
    (if z.r1 ≠ rng.r1 then [⟨rng.sheet, rng.r1, z.r1 - 1, z.c1, z.c2⟩] else []) ++
    (if z.r2 ≠ rng.r2 then [⟨rng.sheet, z.r2 + 1, rng.r2, z.c1, z.c2⟩] else [])

/-- one step of the loop of `Ranges.__add__` -/
def bboxStep (acc : Option Rect) (r : Rect) : Option Rect :=
  match acc with
  | none => none
  | some a =>
    if a.sheet = r.sheet then
      some ⟨a.sheet, min a.r1 r.r1, max a.r2 r.r2, min a.c1 r.c1, max a.c2 r.c2⟩
    else none

/-- `Ranges.__add__` (the `:` operator) on area lists: bounding rectangle of the first area
of `self` with all the others; `none` is `InvalidRangeError` (different sheets). -/
def bbox (self other : List Rect) : Option Rect :=
  match self with
  | [] => none
  | r0 :: rest => (rest ++ other).foldl bboxStep (some r0)

/-- `Ranges.__or__` (the `,` operator): every operand area is kept, in order. -/
def union (self other : List Rect) : List Rect := self ++ other

/-- `Ranges.__and__` (the blank operator): `for rng in other: for r in self: _intersect(rng, r)` -/
def interAreas (self other : List Rect) : List Rect :=
  other.flatMap fun rng => self.filterMap fun r => inter rng r

/-- pieces of `r0` that survive after splitting against every element of `base` in order -/
def subOne (base : List Rect) (r0 : Rect) : List Rect :=
  base.foldl (fun stack b => stack.flatMap (split b)) [r0]

/-- the outer loop of `Ranges.__sub__`: `base` grows by the pieces already produced, so a
later area of `self` is also split against the earlier ones. -/
def subGo : List Rect → List Rect → List Rect → List Rect
  | [], _, acc => acc
  | r0 :: rs, base, acc => subGo rs (base ++ subOne base r0) (acc ++ subOne base r0)

/-- `Ranges.__sub__` -/
def sub (self other : List Rect) : List Rect := subGo self other []

/-! ### `_merge` -/

/-- sort key of `_merge`: `(sheet_id, n1, r1, -n2, -r2)`; sheets are numbered by the harness in
the order of their identifier strings -/
def mergeLe (a b : Rect) : Bool :=
  a.sheet < b.sheet || (a.sheet == b.sheet && (
  a.c1 < b.c1 || (a.c1 == b.c1 && (a.r1 < b.r1 || (a.r1 == b.r1 &&
    (a.c2 > b.c2 || (a.c2 == b.c2 && a.r2 ≥ b.r2)))))))

/-- insertion into a list sorted by `mergeLe` (stable: after equal keys), as `sorted` does -/
def insertSorted (r : Rect) : List Rect → List Rect
  | [] => [r]
  | x :: xs => if mergeLe x r then x :: insertSorted r xs else r :: x :: xs

/-- stable sort by the `_merge` key (model of Python's `sorted(rng, key=key)`) -/
def sortRects (l : List Rect) : List Rect := l.foldl (fun acc r => insertSorted r acc) []

/-- `_merge_raw_update(base, rng)` (after the `fix:` that keeps the larger last row):
same sheet, `base.n1 == rng.n2`, `base.r2 + 1 >= rng.r1` -/
def rawOK (cur r : Rect) : Bool :=
  cur.sheet == r.sheet && cur.c1 == r.c2 && r.r1 ≤ cur.r2 + 1

def rawUpd (cur r : Rect) : Rect := { cur with r2 := max cur.r2 r.r2 }

/-- `_merge_col_update(base, rng)` -/
def colOK (cur r : Rect) : Bool :=
  cur.sheet == r.sheet && cur.c2 + 1 == r.c1 && cur.r1 == r.r1 && cur.r2 == r.r2

def colUpd (cur r : Rect) : Rect := { cur with c2 := r.c2 }

/-- the inner loop of `_merge`: fold with the last element of the output as accumulator -/
def mergeFold (ok : Rect → Rect → Bool) (upd : Rect → Rect → Rect) : Rect → List Rect → List Rect
  | cur, [] => [cur]
  | cur, r :: rest => if ok cur r then mergeFold ok upd (upd cur r) rest else cur :: mergeFold ok upd r rest

def mergePass (ok : Rect → Rect → Bool) (upd : Rect → Rect → Rect) : List Rect → List Rect
  | [] => []
  | r :: rest => mergeFold ok upd r rest

/-- `Ranges._merge` -/
def merge (l : List Rect) : List Rect :=
  mergePass colOK colUpd (sortRects (mergePass rawOK rawUpd (sortRects l)))

/-- smallest `n1` / largest `n2` of a non-empty area list -/
def minC1 : List Rect → Nat
  | [] => 0
  | [r] => r.c1
  | r :: rs => min r.c1 (minC1 rs)

def maxC2 : List Rect → Nat
  | [] => 0
  | r :: rs => max r.c2 (maxC2 rs)

/-- the column list `range(min n1, max n2 + 1)` as whole-column rectangles on `sheet`
(the code's `'{0}:{0}'.format(_index2col(c))`; a whole column has rows `0 … maxrow`). -/
def colRects (maxrow sheet lo hi : Nat) : List Rect :=
  (List.range (hi + 1 - lo)).map fun i => ⟨sheet, 0, maxrow, lo + i, lo + i⟩

/-- insertion of a sheet number into a strictly increasing list (Python's `sorted(set(...))`) -/
def insertNat (n : Nat) : List Nat → List Nat
  | [] => [n]
  | x :: xs => if n < x then n :: x :: xs else if n = x then x :: xs else x :: insertNat n xs

def sheetsOf (l : List Rect) : List Nat := l.foldl (fun acc r => insertNat r.sheet acc) []

/-- `Ranges.simplify`: intersect with every column of every sheet present, then `_merge` -/
def simplify (maxrow : Nat) (l : List Rect) : List Rect :=
  match l with
  | [] => []
  | [r] => [r]
  | _ => merge (interAreas l ((sheetsOf l).flatMap fun s => colRects maxrow s (max 1 (minC1 l)) (maxC2 l)))

/-! ### cells of an area list, with multiplicity -/

/-- how many areas of `l` cover `p` -/
def cover (l : List Rect) (p : Cell) : Nat := (l.filter fun r => decide (r.mem p)).length

end XL
