import XL.Model.Val
/-!
# XL.Model.FloatNum — the `Float` instance of `Num` used by the executable model

Only the driver uses this file; no theorem is about `Float` (opaque to the kernel).
`ofText` recognises the plain decimal grammar of Python's `float(str)`; the spellings that
only Python accepts (`_` between digits, `inf`, `nan`) are reported as `none`, i.e. the model
treats them as non-numeric text — the code accepts them (known finding `python-float-text`).
`display` is `_str`: integers as `'%d'`, other values as Python's `repr(float)` (shortest
digits that round-trip).
-/
namespace XL

def isPyWs (c : Char) : Bool :=
  c == ' ' || c == '\t' || c == '\n' || c == '\r' || c == '\x0b' || c == '\x0c'

def stripWs (s : List Char) : List Char :=
  ((s.dropWhile isPyWs).reverse.dropWhile isPyWs).reverse

def digitsToNat (s : List Char) : Nat := s.foldl (fun a c => a * 10 + (c.toNat - 48)) 0

/-- `[sign] (digits ['.' [digits]] | '.' digits) [(e|E) [sign] digits]` → (negative, mantissa, exponent10) -/
def parseDecimal (s : List Char) : Option (Bool × Nat × Int) :=
  let (neg, s) := match s with
    | '-' :: r => (true, r)
    | '+' :: r => (false, r)
    | r => (false, r)
  let ip := s.takeWhile Char.isDigit
  let s := s.dropWhile Char.isDigit
  let (fp, s, hasDot) := match s with
    | '.' :: r => (r.takeWhile Char.isDigit, r.dropWhile Char.isDigit, true)
    | r => ([], r, false)
  if ip.isEmpty && fp.isEmpty then none else
  let _ := hasDot
  match s with
  | [] => some (neg, digitsToNat (ip ++ fp), -(fp.length : Int))
  | e :: r =>
    if e == 'e' || e == 'E' then
      let (eneg, r) := match r with
        | '-' :: t => (true, t)
        | '+' :: t => (false, t)
        | t => (false, t)
      if r.isEmpty || !(r.all Char.isDigit) then none
      else
        let ev : Int := digitsToNat r
        some (neg, digitsToNat (ip ++ fp), (if eneg then -ev else ev) - (fp.length : Int))
    else none

def floatOfDecimal (neg : Bool) (m : Nat) (e : Int) : Float :=
  let x := if e ≥ 0 then Float.ofScientific (m * 10 ^ e.toNat) false 0 else Float.ofScientific m true (-e).toNat
  if neg then -x else x

def floatOfText (s : String) : Option Float :=
  match parseDecimal (stripWs s.toList) with
  | some (neg, m, e) => some (floatOfDecimal neg m e)
  | none => none

/-! ### exact value of a double and Python's `repr` -/

/-- `|x| = m * 2^e` exactly (finite `x`) -/
def floatParts (x : Float) : Nat × Int :=
  let b := x.toBits.toNat
  let ex : Nat := (b / 2 ^ 52) % 2048
  let fr : Nat := b % 2 ^ 52
  if ex == 0 then (fr, -1074) else (fr + 2 ^ 52, (ex : Int) - 1075)

/-- exact integer value of an integral finite double -/
def floatToInt (x : Float) : Int :=
  let (m, e) := floatParts x
  let v : Nat := if e ≥ 0 then m * 2 ^ e.toNat else m / 2 ^ (-e).toNat
  if x < 0 then -(v : Int) else v

def isIntegral (x : Float) : Bool := x.isFinite && x.floor == x

/-- round-half-even of the exact rational `num / den` -/
def roundDiv (num den : Nat) : Nat :=
  let q := num / den
  let r := num % den
  if 2 * r > den || (2 * r == den && q % 2 == 1) then q + 1 else q

/-- `k` significant digits of `m * 2^e` at decimal exponent `e10` (value ≈ digits * 10^(e10-k+1)) -/
def sigDigits (m : Nat) (e : Int) (e10 : Int) (k : Nat) : Nat :=
  -- value * 10^(k-1-e10) = m * 2^e * 10^s
  let s : Int := (k : Int) - 1 - e10
  let num := m * (if e ≥ 0 then 2 ^ e.toNat else 1) * (if s ≥ 0 then 10 ^ s.toNat else 1)
  let den := (if e ≥ 0 then 1 else 2 ^ (-e).toNat) * (if s ≥ 0 then 1 else 10 ^ (-s).toNat)
  roundDiv num den

/-- floor(log10 |x|) by exact comparison -/
def exp10 (m : Nat) (e : Int) : Int :=
  -- find largest t with 10^t ≤ m*2^e, searching around the estimate
  let approx : Int := ((m.log2 : Int) + e) * 30103 / 100000
  let le10 (t : Int) : Bool :=   -- 10^t ≤ m * 2^e
    let lhs := (if t ≥ 0 then 10 ^ t.toNat else 1) * (if e ≥ 0 then 1 else 2 ^ (-e).toNat)
    let rhs := m * (if e ≥ 0 then 2 ^ e.toNat else 1) * (if t ≥ 0 then 1 else 10 ^ (-t).toNat)
    lhs ≤ rhs
  let t := approx + 2
  let t := if le10 t then t else t - 1
  let t := if le10 t then t else t - 1
  let t := if le10 t then t else t - 1
  let t := if le10 t then t else t - 1
  t

def natDigits (n : Nat) : List Char := (Nat.toDigits 10 n)

/-- shortest round-tripping digits: `(digits, decimal exponent of the first digit)` -/
def shortest (x : Float) : Nat × Nat × Int :=
  let ax := x.abs
  let (m, e) := floatParts ax
  let e10 := exp10 m e
  let try_ (k : Nat) : Option (Nat × Nat × Int) :=
    let d := sigDigits m e e10 k
    -- rounding may carry to k+1 digits (e.g. 9.99 → 10.0)
    let (d, e10') := if d ≥ 10 ^ k then (d / 10, e10 + 1) else (d, e10)
    let sh : Int := e10' - (k : Int) + 1
    let y := floatOfDecimal false d sh
    if y == ax then some (d, k, e10') else none
  let rec go (k fuel : Nat) : Nat × Nat × Int :=
    match fuel with
    | 0 => (sigDigits m e e10 17, 17, e10)
    | fuel + 1 => match try_ k with
      | some r => r
      | none => go (k + 1) fuel
  go 1 17

def stripTrailingZeros (l : List Char) : List Char := (l.reverse.dropWhile (· == '0')).reverse

/-- Python `repr(float)` for a finite non-integral or large value -/
def pyRepr (x : Float) : String :=
  if x == 0 then (if x.toBits == 0 then "0.0" else "-0.0") else
  let (d, k, e10) := shortest x
  let ds := natDigits d
  let ds := if ds.length < k then List.replicate (k - ds.length) '0' ++ ds else ds
  let ds := match stripTrailingZeros ds with | [] => ['0'] | l => l
  let sign := if x < 0 then "-" else ""
  if -4 ≤ e10 ∧ e10 < 16 then
    if e10 ≥ 0 then
      let n := e10.toNat + 1
      let ip := ds.take n ++ List.replicate (n - ds.length) '0'
      let fp := ds.drop n
      sign ++ String.ofList ip ++ "." ++ (if fp.isEmpty then "0" else String.ofList fp)
    else
      sign ++ "0." ++ String.ofList (List.replicate ((-e10).toNat - 1) '0' ++ ds)
  else
    let mant := match ds with
      | [] => "0"
      | c :: rest => String.singleton c ++ (if rest.isEmpty then "" else "." ++ String.ofList rest)
    let es := if e10 < 0 then "-" else "+"
    let ea := natDigits e10.natAbs
    let ea := if ea.length < 2 then '0' :: ea else ea
    sign ++ mant ++ "e" ++ es ++ String.ofList ea

/-- `_str(float)` -/
def floatDisplay (x : Float) : String :=
  if isIntegral x then toString (floatToInt x) else pyRepr x

/-- exact decimal of the shortest round-tripping digits -/
def floatToDec (x : Float) : Int × Int :=
  if x == 0 then (0, 0) else
  let (d, k, e10) := shortest x
  ((if x < 0 then -(d : Int) else (d : Int)), e10 - (k : Int) + 1)

def floatKernel1 (n : String) (x : Float) : Float :=
  match n with
  | "SQRT" => x.sqrt | "EXP" => x.exp | "LN" => x.log | "LOG10" => x.log10
  | "SIN" => x.sin | "COS" => x.cos | "TAN" => x.tan | "ASIN" => x.asin | "ACOS" => x.acos | "ATAN" => x.atan
  | "SINH" => x.sinh | "COSH" => x.cosh | "TANH" => x.tanh | "ASINH" => x.asinh | "ACOSH" => x.acosh | "ATANH" => x.atanh
  | _ => x

def floatKernel2 (n : String) (x y : Float) : Float :=
  match n with
  | "ATAN2" => Float.atan2 x y
  | _ => x

instance : Num Float where
  zero := 0.0
  one := 1.0
  hundred := 100.0
  add := (· + ·)
  sub := (· - ·)
  mul := (· * ·)
  div := (· / ·)
  neg := fun x => -x
  pow := Float.pow
  isFinite := Float.isFinite
  isZero := fun x => x == 0.0
  isNeg := fun x => x < 0.0
  lt := fun a b => a < b
  eq := fun a b => a == b
  ofText := floatOfText
  display := floatDisplay
  toDec := floatToDec
  ofDec := fun m e => floatOfDecimal (m < 0) m.natAbs e
  kernel1 := floatKernel1
  kernel2 := floatKernel2

end XL
