import XL.Model.Val
/-!
# XL.Model.Ops — the 12 binary and 3 unary operators on scalars

Follows `wrap_ufunc.safe_eval` in `formulas/functions/__init__.py` with the wrappers of
`formulas/functions/operators.py`:
`args_parser` (blank replacement) → `check_error` (first error in argument order) →
`input_parser` (`float` for arithmetic, `_str` for `&`, `(type_id, value)` for comparisons) →
the operator's lambda → `convert_nan`; `ValueError/TypeError` of the Python body → `#VALUE!`.
-/
namespace XL
variable {F : Type} [Num F]

inductive AOp | add | sub | mul | div | pow
  deriving DecidableEq, Repr
inductive COp | ge | le | ne | lt | gt | eq
  deriving DecidableEq, Repr
inductive UOp | plus | minus | percent
  deriving DecidableEq, Repr

/-- `get_error(*vals)`: the first error in argument order -/
def firstErr : List (Val F) → Option Err
  | [] => none
  | .err e :: _ => some e
  | _ :: vs => firstErr vs

/-- `replace_empty(x)` then `float(x)`; text goes through Python's `float(str)` -/
def toNum : Val F → Except Err F
  | .num x => .ok x
  | .bool b => .ok (if b then Num.one else Num.zero)
  | .blank => .ok Num.zero
  | .text s => match Num.ofText s with | some x => .ok x | none => .error .value
  | .err e => .error e

/-- `convert_nan` -/
def convertNan (x : F) : Val F := if Num.isFinite x then .num x else .err .num

/-- `_power(x, y)` after the `fix:` commit: `0^0 → #NUM!`, `0^negative → #DIV/0!`,
overflow / non-real → `#NUM!` -/
def power (x y : F) : Val F :=
  if Num.isZero x && Num.isZero y then .err .num
  else if Num.isZero x && Num.isNeg y then .err .div0
  else convertNan (Num.pow x y)

def arithRaw (o : AOp) (x y : F) : Val F :=
  match o with
  | .add => convertNan (Num.add x y)
  | .sub => convertNan (Num.sub x y)
  | .mul => convertNan (Num.mul x y)
  | .div => if Num.isZero y then .err .div0 else convertNan (Num.div x y)
  | .pow => power x y

/-- `+ - * / ^` -/
def arith (o : AOp) (a b : Val F) : Val F :=
  match firstErr [a, b] with
  | some e => .err e
  | none =>
    match toNum a, toNum b with
    | .ok x, .ok y => arithRaw o x y
    | .error e, _ => .err e
    | _, .error e => .err e

/-- display form used by `&`: `_str` after `replace_empty(v, '')` -/
def displayVal : Val F → String
  | .num x => Num.display x
  | .text s => s
  | .bool b => if b then "TRUE" else "FALSE"
  | .blank => ""
  | .err e => e.toString

/-- `&` -/
def concat (a b : Val F) : Val F :=
  match firstErr [a, b] with
  | some e => .err e
  | none => .text (displayVal a ++ displayVal b)

/-- `_get_type_id`: numbers 0, text 1, logicals 2 -/
def rank : Val F → Nat
  | .num _ => 0 | .text _ => 1 | .bool _ => 2 | .blank => 0 | .err _ => 0

/-- blank replacement of `logic_input_parser`: `''` against text, `0` otherwise; text is
upper-cased (ASCII in the model) -/
def cmpKey (v other : Val F) : Val F :=
  match v with
  | .blank => (match other with | .text _ => .text "" | _ => .num Num.zero)
  | .text s => .text s.toUpper
  | v => v

def ltSame : Val F → Val F → Bool
  | .num x, .num y => Num.lt x y
  | .text s, .text t => decide (s < t)
  | .bool a, .bool b => !a && b
  | _, _ => false

def eqSame : Val F → Val F → Bool
  | .num x, .num y => Num.eq x y
  | .text s, .text t => decide (s = t)
  | .bool a, .bool b => a == b
  | _, _ => false

/-- Python tuple comparison of `(type_id, value)` pairs -/
def keyLt (a b : Val F) : Bool := rank a < rank b || (rank a == rank b && ltSame a b)
def keyEq (a b : Val F) : Bool := rank a == rank b && eqSame a b

def cmpKeys (o : COp) (a b : Val F) : Bool :=
  match o with
  | .lt => keyLt a b
  | .gt => keyLt b a
  | .eq => keyEq a b
  | .ne => !keyEq a b
  | .le => keyLt a b || keyEq a b
  | .ge => keyLt b a || keyEq a b

/-- `= <> < > <= >=` -/
def cmp (o : COp) (a b : Val F) : Val F :=
  match firstErr [a, b] with
  | some e => .err e
  | none => .bool (cmpKeys o (cmpKey a b) (cmpKey b (cmpKey a b)))

/-- unary `+` (identity after blank replacement), `-`, `%` -/
def unary (o : UOp) (a : Val F) : Val F :=
  match firstErr [a] with
  | some e => .err e
  | none =>
    match o with
    | .plus =>
      (match a with
       | .blank => convertNan Num.zero
       | .num x => convertNan x
       | v => v)
    | .minus => (match toNum a with | .ok x => convertNan (Num.neg x) | .error e => .err e)
    | .percent => (match toNum a with | .ok x => convertNan (Num.div x Num.hundred) | .error e => .err e)

end XL
