import XL.Model.Basic
/-!
# XL.Model.Val — scalar Excel values, parametric in the number type

`F` stands for the IEEE double of the implementation (`float`, `numpy.float64`).  The kernel
cannot compute with `Float`, so theorems are stated for any `F` with the operations below
(`Num F`) and, where order properties are needed, the laws `LawfulNum F` as *hypotheses*.
The driver instantiates `F := Float` (`XL.Model.FloatNum`).
-/
namespace XL

/-- the seven error values (`Error.errors`) and the circular-reference marker `ERR_CIRCULAR`
(`XlCircular`, a subclass of `XlError`: every function treats it as an error value) -/
inductive Err | null | div0 | value | ref | name | num | na | circ
  deriving DecidableEq, Repr, Inhabited

def Err.toString : Err → String
  | .null => "#NULL!" | .div0 => "#DIV/0!" | .value => "#VALUE!" | .ref => "#REF!"
  | .name => "#NAME?" | .num => "#NUM!" | .na => "#N/A" | .circ => "#CIRC!"

def Err.ofString? : String → Option Err
  | "#NULL!" => some .null | "#DIV/0!" => some .div0 | "#VALUE!" => some .value | "#REF!" => some .ref
  | "#NAME?" => some .name | "#NUM!" => some .num | "#N/A" => some .na | "#CIRC!" => some .circ | _ => none

/-- one Excel value: number, text, logical, blank cell (`sh.EMPTY`) or error -/
inductive Val (F : Type)
  | num (x : F) | text (s : String) | bool (b : Bool) | blank | err (e : Err)
  deriving Repr, Inhabited, DecidableEq

class Num (F : Type) where
  zero : F
  one : F
  hundred : F
  add : F → F → F
  sub : F → F → F
  mul : F → F → F
  div : F → F → F
  neg : F → F
  /-- `x ** y` where Python would return a float; non-finite stands for `OverflowError`/complex -/
  pow : F → F → F
  isFinite : F → Bool
  /-- `x == 0` (either sign) -/
  isZero : F → Bool
  /-- `x < 0` -/
  isNeg : F → Bool
  lt : F → F → Bool
  eq : F → F → Bool
  /-- Python `float(s)` on text: `none` is `ValueError` -/
  ofText : String → Option F
  /-- `_str` of a number (integers without `.0`, otherwise `str(float)`) -/
  display : F → String
  /-- the exact decimal `m · 10^e` of the shortest text that reads back as the (finite) number -/
  toDec : F → Int × Int
  /-- the number nearest to `m · 10^e` -/
  ofDec : Int → Int → F
  /-- transcendental kernels by name (`SQRT`, `EXP`, `LN`, `SIN`, …): external (libm / numpy) -/
  kernel1 : String → F → F
  kernel2 : String → F → F → F

/-- order laws that finite IEEE doubles satisfy (hypotheses of the comparison theorems) -/
class LawfulNum (F : Type) [Num F] : Prop where
  lt_irrefl : ∀ a : F, Num.lt a a = false
  lt_trans : ∀ a b c : F, Num.lt a b = true → Num.lt b c = true → Num.lt a c = true
  eq_refl : ∀ a : F, Num.isFinite a = true → Num.eq a a = true
  tri : ∀ a b : F, Num.isFinite a = true → Num.isFinite b = true →
    (Num.lt a b = true ∧ Num.eq a b = false ∧ Num.lt b a = false) ∨
    (Num.lt a b = false ∧ Num.eq a b = true ∧ Num.lt b a = false) ∨
    (Num.lt a b = false ∧ Num.eq a b = false ∧ Num.lt b a = true)

end XL
