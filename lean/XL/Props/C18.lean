import XL.Proofs.Syntax
/-!
# C18 — the parser is total: it returns a formula or its syntax error, only

The model functions `parseString`, `lexLoop`, `step` are total Lean functions (termination is
checked by Lean: the tokeniser loop runs on a fuel equal to the text length and every accepted
token consumes at least one character).  Every exception other than `FormulaError` that the Python
code could raise on this path is an explicit `escape` result in the model; `no_escape` shows that
none is reachable, for **every** input string of the modelled alphabet.
-/
namespace XL.C18
open XL

/-- the filters are tried in the order the model assumes (generated from `Parser.filters`) -/
theorem filter_order : Generated.filterOrder =
    ["Error", "String", "Number", "Range", "OperatorToken", "Separator", "Function", "Array", "Parenthesis", "Intersect"] := by
  decide

/-- **no exception other than the formula-syntax error escapes**, for every string -/
theorem no_escape (s : List Char) : ¬ IsLexEscape (parseString s) := parseString_no_escape s

/-- **dichotomy**: a formula or the syntax error (or the model's "outside the alphabet" answer) -/
theorem dichotomy (s : List Char) :
    (∃ t, parseString s = .ok t) ∨ parseString s = .error .formula ∨ parseString s = .error .outOfDomain := by
  have := no_escape s
  cases h : parseString s with
  | ok t => exact Or.inl ⟨t, rfl⟩
  | error e =>
    cases e with
    | formula => exact Or.inr (Or.inl rfl)
    | outOfDomain => exact Or.inr (Or.inr rfl)
    | escape w => rw [h] at this; exact absurd trivial this

/-- **termination argument**: every iteration of the tokeniser loop consumes at least one character
and keeps the stack invariant (every operator has a precedence, every function token lies under
its parenthesis) -/
theorem lex_progress (st : PState) (s : List Char) (hg : good st.st = true) (st' : PState) (rest : List Char)
    (h : lexStep st s = .ok (st', rest)) : rest.length < s.length ∧ good st'.st = true :=
  ⟨((lexStep_ok st s hg).2 st' rest h).2, ((lexStep_ok st s hg).2 st' rest h).1⟩

/-- every operator symbol the tokeniser can emit has an entry in the generated precedence table,
in every context (no `KeyError`) -/
theorem operator_table_complete :
    opNames.all (fun n => allPrevs.all fun p => (precOf (finalName n p)).isSome) = true := finalName_known

def rejected (s : String) : Bool :=
  match parseString s.toList with
  | .error .formula => true
  | _ => false

/-- **a binary operator (or `%`) without a left operand is rejected, wherever it stands**: in every
state whose previous token is an opening parenthesis, a separator or an operator, an operator token
other than `+`/`-` (which become signs) and the range operators ends parsing with the formula-syntax
error, whatever follows (`fix:` commit: `=SUM(1,*2)` was read as `SUM(1*2)`) -/
theorem missing_left_operand_rejected (name : String)
    (hn : name ≠ "+" ∧ name ≠ "-" ∧ name ≠ " " ∧ name ≠ "," ∧ name ≠ ":")
    (s : PState) (h : s.prev = .lparen ∨ s.prev = .sep ∨ s.prev = .opr) (rest : List Tok) :
    runToks (.opr name :: rest) s = .error .formula := by
  have h1 : ¬ (s.prev = .operand ∨ s.prev = .rparen ∨ s.prev = .percent) := by
    rcases h with h | h | h <;> simp [h]
  simp [runToks, step, hn, h1]

/-- instances of the malformed classes the property names: each is rejected -/
theorem malformed_rejected :
    -- unbalanced or misplaced parentheses / braces
    rejected "=(1" ∧ rejected "=1)" ∧ rejected "=SUM(1" ∧ rejected "={1,2" ∧ rejected "=1}" ∧ rejected "=1)+(2" ∧
    rejected "=SUM({1,2)}" ∧ rejected "={1,(2},3)" ∧
    -- missing operand
    rejected "=1+" ∧ rejected "=*1" ∧ rejected "=()" ∧ rejected "=SUM(1,%)" ∧ rejected "=1+*2" ∧
    rejected "=SUM(1,*2)" ∧ rejected "=IF(1,^2,3)" ∧ rejected "=SUM(1,&2)" ∧ rejected "=SUM(1,=2)" ∧ rejected "=SUM(1,<>2)" ∧
    -- adjacent operands
    rejected "=1 2" ∧ rejected "=(1)2" ∧ rejected "=(1)(2)" ∧ rejected "=\"a\"1" ∧ rejected "=SUM(1 SUM(2))" ∧
    rejected "=SUM(1{2})" ∧ rejected "=(A1)B1" ∧
    -- an operand behind a percent sign, also with a blank or a colon between them (`x% y` was read as `(x y)%`)
    rejected "=A1%B1" ∧ rejected "=A1% B1" ∧ rejected "=A1%  (B1)" ∧
    -- ragged arrays
    rejected "={1,2;3}" ∧ rejected "={1;2,3}" ∧
    -- not a formula at all
    rejected "abc" ∧ rejected "=" ∧ rejected "=1==2" ∧ rejected "=5%%" := by
  decide +kernel

def acceptedAs (s r : String) : Bool :=
  match parseString s.toList with
  | .ok t => render t == r
  | _ => false

/-- numeric literals in the forms Excel writes are accepted as one number token -/
theorem numeric_literals :
    acceptedAs "=007" "007" ∧ acceptedAs "=1.50" "1.50" ∧ acceptedAs "=.5" ".5" ∧ acceptedAs "=1.5E-3" "1.5E-3" ∧
    acceptedAs "=1E+5" "1E+5" ∧ acceptedAs "=0" "0" ∧ acceptedAs "=123456789012345678" "123456789012345678" := by
  decide +kernel

/-! ### non-vacuity -/
example : good initState.st = true := by decide
example : acceptedAs "=SUM(1,2)*3" "(SUM(1, 2) * 3)" = true := by decide +kernel

end XL.C18
