import XL.Proofs.Syntax
import XL.Proofs.ParseRender
import XL.Proofs.Blanks
import XL.Proofs.LexBlanks
/-!
# C09 — JSON export and import preserve every value and are a fixed point

The export/import of `ExcelModel.to_dict` / `from_dict` is the identity on the workbook model except
for two textual encodings, which are what can go wrong:

* a text constant that `from_dict` would read as something else (a formula, the blank marker, an
  error literal) is exported as the formula `="…"` with doubled quotes (`_escape_text`, `fix:` commit);
  `quote_roundtrip` and `escaped_text_parses` show, for **every** text, that this formula is accepted
  by the parser as one string literal whose value is the original text;
* formula cells are exported as the rendering of their tree; `export_reparse_instances` are
  kernel-checked instances of "the exported text parses back to the same formula"; for all canonical
  trees the statement is proved at token level (`export_reparses`: the tokens of the exported text are
  read back to the same tree, by induction on the tree); the pinned code's sign folding makes it false
  for nested signs (`signrun_export_counterexample`, known finding), which `Canon` excludes.
-/
namespace XL.C09
open XL

/-- `v.replace('"', '""')` -/
def doubleQ : List Char → List Char
  | [] => []
  | c :: r => if c = '"' then '"' :: '"' :: doubleQ r else c :: doubleQ r

/-- `String.compile`: `name.replace('""', '"')` (left to right, non-overlapping) -/
def undoubleQ : List Char → List Char
  | '"' :: '"' :: r => '"' :: undoubleQ r
  | c :: r => c :: undoubleQ r
  | [] => []

/-- doubling then un-doubling gives the text back, for every text -/
theorem quote_roundtrip (s : List Char) : undoubleQ (doubleQ s) = s := by
  induction s with
  | nil => rfl
  | cons c r ih =>
    by_cases h : c = '"'
    · subst h; simp [doubleQ, undoubleQ, ih]
    · simp only [doubleQ, h, if_false]
      cases hd : doubleQ r with
      | nil =>
        rw [hd] at ih
        have : undoubleQ [c] = [c] := by
          unfold undoubleQ
          split
          · rename_i heq; cases heq
          · rename_i heq; cases heq; simp [undoubleQ]
          · rename_i heq; cases heq
        rw [this]; simp [undoubleQ] at ih; rw [← ih]
      | cons d t =>
        rw [hd] at ih
        have : undoubleQ (c :: d :: t) = c :: undoubleQ (d :: t) := by
          conv => lhs; unfold undoubleQ
          split
          · rename_i heq; cases heq; exact absurd rfl h
          · rename_i heq; cases heq; rfl
          · rename_i heq; cases heq
        rw [this, ih]

theorem strBody_cons_ne (c : Char) (h : c ≠ '"') (r acc : List Char) : strBody (c :: r) acc = strBody r (c :: acc) := by
  conv => lhs; unfold strBody
  split
  · rename_i heq; simp at heq; exact absurd heq.1 h
  · rename_i heq; simp at heq; exact absurd heq.1 h
  · rename_i heq; simp at heq; obtain ⟨rfl, rfl⟩ := heq; rfl
  · rename_i heq; simp at heq

/-- the body of the escaped literal is read back in full: the tokeniser's string scanner consumes
exactly the doubled text and the closing quote -/
theorem strBody_doubleQ (s acc : List Char) :
    strBody (doubleQ s ++ ['"']) acc = some (acc.reverse ++ doubleQ s, []) := by
  induction s generalizing acc with
  | nil => simp [doubleQ, strBody]
  | cons c r ih =>
    by_cases h : c = '"'
    · subst h
      simp only [doubleQ, if_true, List.cons_append, strBody]
      rw [ih]; simp
    · simp only [doubleQ, h, if_false, List.cons_append]
      rw [strBody_cons_ne c h, ih]; simp

/-- **the escaped form of every text constant is a string literal for the tokeniser** -/
theorem escaped_text_token (s : List Char) :
    mString ('"' :: (doubleQ s ++ ['"'])) = some (.operand .str (String.ofList (doubleQ s)), []) := by
  simp [mString, skipWs, isWs, strBody_doubleQ]

def rejectedBy (s : String) : Bool :=
  match parseString s.toList with
  | .ok _ => false
  | _ => true

def reparse (s : String) : Option String :=
  match parseString s.toList with
  | .ok t => some ("=" ++ render t)
  | .error _ => none

/-- kernel-checked instances: the exported text of a parsed formula parses back to itself -/
theorem export_reparse_instances :
    reparse "=1+2*3" = some "=(1 + (2 * 3))" ∧ reparse "=(1 + (2 * 3))" = some "=(1 + (2 * 3))" ∧
    reparse "=SUM(A1:B2,,3)%" = some "=SUM(A1:B2, , 3)%" ∧ reparse "=SUM(A1:B2, , 3)%" = some "=SUM(A1:B2, , 3)%" ∧
    reparse "={1,2;3,4}&\"a\"\"b\"" = some "=(ARRAY(ARRAY(1, 2), ARRAY(3, 4)) & \"a\"\"b\")" ∧
    reparse "=(ARRAY(ARRAY(1, 2), ARRAY(3, 4)) & \"a\"\"b\")" = some "=(ARRAY(ARRAY(1, 2), ARRAY(3, 4)) & \"a\"\"b\")" ∧
    reparse "=-A1^2" = some "=(-A1 ^ 2)" ∧ reparse "=(-A1 ^ 2)" = some "=(-A1 ^ 2)" ∧
    reparse "=(A1:B2 B1:C3)" = some "=(A1:B2 B1:C3)" ∧ reparse "=(A1, B2)" = some "=(A1, B2)" := by
  decide +kernel

/-- **known finding `sign-run`**: `-(-A1)` is exported `--A1`, which reads back as `+A1` -/
theorem signrun_export_counterexample :
    reparse "=-(-A1)" = some "=--A1" ∧ reparse "=--A1" = some "=+A1" := by decide +kernel

/-- **the export is a fixed point of parsing** (token level): the tokens of the exported text of a
canonical tree parse to that tree, so exporting again gives the same text -/
theorem export_reparses (t : Ast) (hc : Canon t) : (parseToks (toks t)).map render = .ok (render t) := by
  rw [parse_toks t hc]; rfl

/-! ### which blank cells the export lists (`#EMPTY` entries)

Range assembly lists an unpopulated cell as a node when a range over it has at most `compact` unlisted
unpopulated cells; the export writes these nodes as `#EMPTY`, the import reads them back as listed.
(Repaired defect `export-blank-listing`: the pinned code processed ranges in set order, once.) -/

open XL.Blanks in
/-- **every schedule of range assembly lists the same cells**: any two sequences of firings that end in
a listing where no range can add anything have the same members -/
theorem blank_listing_schedule_independent (c : Nat) (rs : List (List Nat)) (L L1 L2 : List Nat)
    (h1 : Run c rs L L1) (s1 : Stable c rs L1) (h2 : Run c rs L L2) (s2 : Stable c rs L2) :
    ∀ x, x ∈ L1 ↔ x ∈ L2 := schedule_independent c rs L L1 L2 h1 s1 h2 s2

open XL.Blanks in
/-- the model's listing is one such schedule and ends stable -/
theorem blank_listing_is_a_schedule (c : Nat) (rs : List (List Nat)) (L : List Nat) :
    Run c rs L (closure c rs L) ∧ Stable c rs (closure c rs L) := ⟨closure_run c rs L, closure_stable c rs L⟩

open XL.Blanks in
/-- neither the order (or multiplicity) of the ranges nor the order of what was listed before matters -/
theorem blank_listing_order_independent (c : Nat) (rs rs' : List (List Nat)) (L L' : List Nat)
    (hrs : ∀ r, r ∈ rs ↔ r ∈ rs') (hL : ∀ y, y ∈ L ↔ y ∈ L') :
    ∀ x, x ∈ closure c rs L ↔ x ∈ closure c rs' L' := by
  intro x
  rw [closure_least, closure_least]
  constructor
  · intro h S hS hy
    exact h S (stable_congr c rs' rs (fun r => (hrs r).symm) S hS) (fun y hyL => hy y ((hL y).mp hyL))
  · intro h S hS hy
    exact h S (stable_congr c rs rs' hrs S hS) (fun y hyL => hy y ((hL y).mpr hyL))

open XL.Blanks in
/-- **export → import → export lists nothing new**: assembling the ranges again over the exported listing
returns that listing unchanged -/
theorem blank_listing_fixed_point (c : Nat) (rs : List (List Nat)) (L : List Nat) :
    closure c rs (closure c rs L) = closure c rs L := closure_idem c rs L

open XL.Blanks in
/-- non-vacuity, the shape of the repaired defect: `compact = 1`; B2:B4 misses B2 and B4, B4:D4 misses B4
and C4, and C4 alone is referred to.  C4 is listed, then B4, then B2 — whatever the order of the ranges -/
example : closure 1 [[2, 4], [4, 5], [5]] [] = [5, 4, 2] ∧ closure 1 [[5], [4, 5], [2, 4]] [] = [5, 4, 2] ∧
    closure 1 [[2, 4], [4, 5]] [] = [] := by decide

/-! ### export → import on the characters -/

/-- **the exported text of a formula parses back to its tree** — not on tokens but on the characters: for every
render-stable tree (numbers, cell names, plain strings, the twelve binary operators, signs, `%`, calls; no sign
directly under a sign or behind `+`/`-`, no `%` of a `%`, no sign of a `%` — the shapes of the known findings
`sign-run` and `double-percent`), the parser model — tokeniser loop with its ten filters, blanks and all, and the
shunting-yard — reads `=` followed by `render t` back as `t` -/
theorem export_text_reparses (ct : LexText.CT) (h : LexText.CT.RWF ct) :
    parseString ('=' :: (render ct.toAst).toList) = .ok ct.toAst := LexText.render_text_parses ct h

/-- … hence exporting what was imported from an export changes nothing -/
theorem export_text_fixed_point (ct : LexText.CT) (h : LexText.CT.RWF ct) :
    (parseString ('=' :: (render ct.toAst).toList)).map render = .ok (render ct.toAst) := by
  rw [export_text_reparses ct h]; rfl

/-- … and the blanks `render` writes are one admissible choice: any other placement the tokeniser allows parses the same -/
theorem export_text_any_blanks (ct : LexText.CT) (h : LexText.CT.RWF ct) (gs : List LexText.GT)
    (hf : LexText.fsts gs = ct.fspec) (hg : LexText.GapsOK gs none) (hl : (gs.getLast?.map (·.2)) = some 0) :
    parseString ('=' :: LexText.textG gs) = .ok ct.toAst :=
  LexText.exported_text_with_blanks_parses ct h gs hf hg hl

/-- the decidable shape used by the driver (`rtext`) implies the hypothesis of the theorem -/
theorem export_text_class (ct : LexText.CT) (h : LexText.CT.WF ct) (hs : ct.shapeOK = true) : LexText.CT.RWF ct :=
  LexText.rwf_of_wf_shape ct h hs

-- non-vacuity: the tree of `=(1 + A1%)` is render-stable, and its exported text is that text
example : LexText.CT.RWF (.bin "+" (.num ['1']) (.pct (.cell ['A'] ['1']))) :=
  LexText.rwf_of_wf_shape _ (LexText.CT.WF.bin _ _ _ (by decide) (LexText.CT.WF.num _ (by decide) (by decide))
    (LexText.CT.WF.pct _ (LexText.CT.WF.cell _ _ ⟨by decide, by decide, by decide, by decide, by decide⟩))) (by decide)
example : (render (LexText.CT.toAst (.bin "+" (.num ['1']) (.pct (.cell ['A'] ['1']))))) = "(1 + A1%)" := by decide +kernel

end XL.C09
