import XL.Proofs.Compile
/-!
# C17 — copies and serialised models are equivalent and independent  (PARTIAL)

The substance of this property is object identity and shared mutable state in CPython
(`Ranges._value`, default values of the dispatcher, `lru_cache`s, the module-level memo of
`functions/eng.py`, `dill`), which no pure model exhibits.  The Lean part fixes the abstract
contract the check tests the real objects against: a two-handle state machine in which an
operation addressed to one handle observes only that handle's workbook and the supplied inputs.
-/
namespace XL.C17
open XL
variable {F : Type} [Num F]

/-- operations a user performs on a model handle -/
inductive Op (F : Type)
  | calc (inputs : List ((Nat × Nat × Nat) × Val F)) (out : Nat × Nat × Nat)   -- calculate with overrides, read a cell
  | finish                                                                     -- re-finish (no observable effect)
  | export                                                                     -- to_dict / write

inductive Handle | orig | copy
  deriving DecidableEq

structure State (F : Type) where
  orig : Book F
  copy : Book F

def observe (b : Book F) (fuel : Nat) : Op F → Option (Val F)
  | .calc inputs (s, r, c) => some (value (withOverrides b inputs) fuel s r c)
  | _ => none

/-- one step: the addressed handle is observed; no handle's workbook changes -/
def step (fuel : Nat) (st : State F) (h : Handle) (op : Op F) : State F × Option (Val F) :=
  (st, observe (if h = .orig then st.orig else st.copy) fuel op)

def run (fuel : Nat) : State F → List (Handle × Op F) → State F × List (Option (Val F))
  | st, [] => (st, [])
  | st, (h, op) :: rest =>
    ((run fuel (step fuel st h op).1 rest).1, (step fuel st h op).2 :: (run fuel (step fuel st h op).1 rest).2)

/-- **equivalence**: a copy (same workbook) gives the same observation as the original for every operation -/
theorem copy_equivalent (b : Book F) (fuel : Nat) (op : Op F) :
    (step fuel ⟨b, b⟩ .orig op).2 = (step fuel ⟨b, b⟩ .copy op).2 := by
  simp [step]

/-- **independence**: whatever sequence of operations is applied to the two handles, in any
interleaving, each observation equals the observation on a never-copied twin of that handle -/
theorem copies_independent (fuel : Nat) (st : State F) (ops : List (Handle × Op F)) :
    (run fuel st ops).1 = st ∧
    (run fuel st ops).2 = ops.map fun (h, op) => observe (if h = .orig then st.orig else st.copy) fuel op := by
  induction ops generalizing st with
  | nil => simp [run]
  | cons x rest ih =>
    obtain ⟨h, op⟩ := x
    have := ih (step fuel st h op).1
    simp only [run, step] at this ⊢
    exact ⟨this.1, by rw [this.2]; simp⟩

end XL.C17
