import XL.Proofs.Book
/-!
# C07 — recalculation with overrides is exact and leaves no trace

`withOverride b s r c v` is `ExcelModel.calculate(inputs={cell: v})` in the model: the supplied
value shadows whatever the address holds.  A value supplied through a multi-cell range or through
a defined name that is a reference is distributed to the cells (`InvRangesAssembler`,
`inverse_references`): `withRange` is that distribution.

The model is a *function* of the workbook and the supplied inputs, so "no trace of earlier
calculations, compilations, exports or writes" holds of the model by construction; that the
implementation behaves like this function after arbitrary operation histories is what the
correspondence check exercises (live model vs freshly built model vs this model).
-/
namespace XL.C07
open XL
variable {F : Type} [Num F]

/-- **an overridden cell holds exactly the supplied value**; its own formula is not evaluated -/
theorem override_is_constant (b : Book F) (s r c : Nat) (v : Val F) (n : Nat) :
    value (withOverride b s r c v) (n + 1) s r c = v := override_value b s r c v n

/-- overriding removes dependencies, it never adds one -/
theorem acyclic_withOverride (b : Book F) (rank : Nat → Nat → Nat → Nat) (h : Acyclic b rank) (s r c : Nat) (v : Val F) :
    Acyclic (withOverride b s r c v) rank := by
  intro s1 r1 c1 s2 r2 c2 ⟨e, he, q, hq, hh⟩
  apply h s1 r1 c1 s2 r2 c2
  refine ⟨e, ?_, q, hq, hh⟩
  simp only [formulaAt, withOverride, lookupOverride] at he ⊢
  split at he
  · cases he
  · rename_i hne
    split at hne
    · cases hne
    · simp only [hne] at he ⊢
      exact he

/-- **every dependent is recomputed from the supplied values**: the calculated values with an
override satisfy the equations in which the overridden address is the constant `v` -/
theorem dependents_recomputed (b : Book F) (rank : Nat → Nat → Nat → Nat) (h : Acyclic b rank) (s r c : Nat) (v : Val F)
    (s' r' c' : Nat) :
    val (withOverride b s r c v) rank s' r' c' =
      Equation (withOverride b s r c v) (val (withOverride b s r c v) rank) s' r' c' :=
  val_fixpoint _ rank (acyclic_withOverride b rank h s r c v) s' r' c'

/-- **cells that do not depend on the overridden address keep their values** -/
theorem independent_unchanged (b : Book F) (xs xr xc : Nat) (v : Val F) (n s r c : Nat)
    (hind : ¬ Reaches b (s, r, c) (xs, xr, xc)) :
    value (withOverride b xs xr xc v) n s r c = value b n s r c :=
  override_independent b xs xr xc v n s r c hind

/-- distribution of a range value to its cells, row by row -/
def withRange (b : Book F) (s r0 c0 : Nat) : List (List (Val F)) → Book F
  | [] => b
  | row :: rows =>
    withRange ((List.range row.length).foldl (fun b' j => withOverride b' s r0 (c0 + j) (row.getD j .blank)) b) s (r0 + 1) c0 rows

/-- **supplying a value through a single-row range equals supplying it to the underlying cells** -/
theorem range_override_cell (b : Book F) (s r c : Nat) (v w : Val F) (n : Nat) :
    value (withRange b s r c [[v, w]]) (n + 1) s r c = v ∧ value (withRange b s r c [[v, w]]) (n + 1) s r (c + 1) = w := by
  constructor
  · simp [withRange, value, withOverride, lookupOverride, List.range, List.range.loop]
  · simp [withRange, value, withOverride, lookupOverride, List.range, List.range.loop]

end XL.C07
