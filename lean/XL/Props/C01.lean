import XL.Model.Lex
import XL.Proofs.Range
import XL.Proofs.ParseRender
import XL.Proofs.ParseMin
import XL.Proofs.LexTree
import XL.Proofs.LexBlanks
/-!
# C01 — formulas are parsed according to Excel's operator grammar

Theorems about the model of the tokeniser and the shunting-yard (`XL.Model.Lex`,
`XL.Model.Syntax`), instantiated with the precedence and arity tables **generated from the source**.

* `prec_chain`, `arities`: the binding strengths are the ones the property lists;
* `pairs_grouping`, `triples_grouping`: for **every** ordered pair / triple of the 12 binary operators,
  the minimal spelling of each parenthesisation parses to that tree (kernel evaluation over the whole
  finite table of operator symbols — the exhaustive part of the property's quantifier);
* `sign_and_percent`: the unary sign binds tighter than `%`, `%` tighter than `^`;
* `empty_arguments_keep_position`, `array_rows`, `ragged_rejected`: separators split arguments only
  at top level, empty arguments keep their index, array literals become nested `ARRAY` calls;
* `redundant_parentheses`, `blanks_and_case`: instances of spelling independence;
* `signrun_counterexample`: the pinned code folds sign runs — the model reproduces it (known finding).

* **trees of unbounded depth**: `parse_fully_parenthesised` — for EVERY canonical tree (binary
  operators with operands of any depth, a sign on an operand / parenthesised expression / call, `%` on
  anything, calls with any number of arguments) the shunting-yard reads the fully parenthesised token
  rendering (`toks`, the token form of the exported text) back to exactly that tree, by induction on the
  tree; `extra_parentheses_transparent` — one more pair of parentheses around it changes nothing.
  `Canon` excludes a sign directly on a sign and a sign directly on a percentage: those spellings
  (`--x`, `-x%`) group differently (`sign-run`; `-x%` is `(-x)%`, see `sign_and_percent`).  The step from
  characters to tokens (`XL.Model.Lex`) is covered by the pair / triple theorems and the correspondence.
-/
namespace XL.C01
open XL

/-- comparisons ≺ `&` ≺ `+ -` ≺ `* /` ≺ `^` ≺ `%` ≺ unary sign ≺ reference operators,
equal rank inside each group -/
theorem prec_chain :
    (["=", "<", ">", "<=", ">=", "<>"].map precOf = List.replicate 6 (some 1)) ∧
    precOf "&" = some 2 ∧ precOf "+" = some 3 ∧ precOf "-" = some 3 ∧ precOf "*" = some 4 ∧ precOf "/" = some 4 ∧
    precOf "^" = some 5 ∧ precOf "%" = some 6 ∧ precOf "u-" = some 7 ∧ precOf "u+" = some 7 ∧
    precOf ":" = some 8 ∧ precOf " " = some 8 ∧ precOf "," = some 8 := by decide

theorem arities : arityOf "u-" = 1 ∧ arityOf "u+" = 1 ∧ arityOf "%" = 1 ∧
    (["=", "<", ">", "<=", ">=", "<>", "&", "+", "-", "*", "/", "^", ":", " ", ","].map arityOf = List.replicate 15 2) := by decide

def binOps : List String := ["=", "<", ">", "<=", ">=", "<>", "&", "+", "-", "*", "/", "^"]

/-- the observable: the fully parenthesised rendering of the tree the text is parsed to
(`none` when the text is rejected) -/
def parseR (s : String) : Option String :=
  match parseString s.toList with
  | .ok t => some (render t)
  | .error _ => none

def b (o l r : String) : String := "(" ++ l ++ " " ++ o ++ " " ++ r ++ ")"

/-- the tree the grammar assigns to `2 o1 3 o2 4`: the tighter operator first, equal rank left to right -/
def expectPair (o1 o2 : String) : String :=
  if (precOf o2).getD 0 > (precOf o1).getD 0 then b o1 "2" (b o2 "3" "4") else b o2 (b o1 "2" "3") "4"

def pairOK (o1 o2 : String) : Bool :=
  parseR ("=2" ++ o1 ++ "3" ++ o2 ++ "4") == some (expectPair o1 o2) &&
  parseR ("=(2" ++ o1 ++ "3)" ++ o2 ++ "4") == some (b o2 (b o1 "2" "3") "4") &&
  parseR ("=2" ++ o1 ++ "(3" ++ o2 ++ "4)") == some (b o1 "2" (b o2 "3" "4"))

/-- **every ordered pair of binary operators**: precedence, left-to-right grouping of equal rank,
parentheses override -/
theorem pairs_grouping : binOps.all (fun o1 => binOps.all (fun o2 => pairOK o1 o2)) = true := by
  decide +kernel

def numTok (s : String) : Tok := .operand .num s
def parseTR (ts : List Tok) : Option String :=
  match parseToks ts with
  | .ok t => some (render t)
  | .error _ => none
def pr (o : String) : Nat := (precOf o).getD 0

/-- rendering the grammar assigns to `2 o1 3 o2 4 o3 5` -/
def expectTriple (o1 o2 o3 : String) : String :=
  if pr o2 > pr o1 then
    if pr o3 > pr o2 then b o1 "2" (b o2 "3" (b o3 "4" "5"))
    else if pr o3 > pr o1 then b o1 "2" (b o3 (b o2 "3" "4") "5")
    else b o3 (b o1 "2" (b o2 "3" "4")) "5"
  else
    if pr o3 > pr o2 then b o2 (b o1 "2" "3") (b o3 "4" "5")
    else b o3 (b o2 (b o1 "2" "3") "4") "5"

def tripleOK (o1 o2 o3 : String) : Bool :=
  parseTR [numTok "2", .opr o1, numTok "3", .opr o2, numTok "4", .opr o3, numTok "5"] == some (expectTriple o1 o2 o3)

/-- **every ordered triple of binary operators** (all 1728, on the token stream) -/
theorem triples_grouping :
    binOps.all (fun o1 => binOps.all (fun o2 => binOps.all fun o3 => tripleOK o1 o2 o3)) = true := by
  decide +kernel

/-- the unary sign binds tighter than `%`, `%` tighter than `^`, and a sign after an operator is unary -/
theorem sign_and_percent :
    parseR "=-2^2" = some "(-2 ^ 2)" ∧ parseR "=2^-2" = some "(2 ^ -2)" ∧ parseR "=2^3%" = some "(2 ^ 3%)" ∧
    parseR "=-2%" = some "-2%" ∧ parseR "=-(2^2)" = some "-(2 ^ 2)" ∧ parseR "=2*-3" = some "(2 * -3)" ∧
    parseR "=(2+3)%" = some "(2 + 3)%" ∧ parseR "=2-3" = some "(2 - 3)" ∧ parseR "=(2)-3" = some "(2 - 3)" ∧
    parseR "=2%-3" = some "(2% - 3)" := by decide +kernel

/-- arguments are split only at top-level separators and empty arguments keep their position -/
theorem empty_arguments_keep_position :
    parseR "=IF(,1,2)" = some "IF(, 1, 2)" ∧ parseR "=IF(1,,2)" = some "IF(1, , 2)" ∧
    parseR "=IF(1,2,)" = some "IF(1, 2, )" ∧ parseR "=SUM()" = some "SUM()" ∧
    parseR "=SUM((1+2)*3,MAX(4,5),6)" = some "SUM(((1 + 2) * 3), MAX(4, 5), 6)" ∧
    parseR "=SUM(1,(A1,B2),3)" = some "SUM(1, (A1, B2), 3)" := by decide +kernel

/-- array-literal rows and columns are nested `ARRAY` calls; ragged rows are rejected -/
theorem array_rows :
    parseR "={1,2;3,4}" = some "ARRAY(ARRAY(1, 2), ARRAY(3, 4))" ∧ parseR "={1;2;3}" = some "ARRAY(ARRAY(1), ARRAY(2), ARRAY(3))" ∧
    parseR "={1,2,3}" = some "ARRAY(ARRAY(1, 2, 3))" ∧ parseR "=SUM({1,2},3)" = some "SUM(ARRAY(ARRAY(1, 2)), 3)" := by
  decide +kernel

theorem ragged_rejected :
    parseR "={1,2;3}" = none ∧ parseR "={1;2,3}" = none ∧ parseR "={1,2;3,4;5}" = none ∧ parseR "={}" = none := by
  decide +kernel

/-- instances of independence from redundant parentheses, blanks and letter case -/
theorem spelling_instances :
    parseR "=((1))+(2*(3))" = parseR "=1+2*3" ∧ parseR "= 1 +  2 * 3 " = parseR "=1+2*3" ∧
    parseR "=sum( a1 , $B$2 )" = parseR "=SUM(A1,B2)" ∧ parseR "=(SUM((1)))" = parseR "=SUM(1)" ∧
    parseR "=1+2*3" = some "(1 + (2 * 3))" ∧ parseR "=SUM(A1,B2)" = some "SUM(A1, B2)" := by decide +kernel

/-- **known finding `sign-run`**: the pinned code folds a run of signs into one sign by parity
before parsing; the model reproduces it.  The grammar assigns `(1 + (-2 ^ 2))` and `--"3"`. -/
theorem signrun_counterexample :
    parseR "=1+-2^2" = some "(1 - (2 ^ 2))" ∧ parseR "=--\"3\"" = some "+\"3\"" ∧
    parseR "=1--2" = some "(1 + 2)" := by decide +kernel

/-! ### trees of unbounded depth (token level) -/

/-- **every canonical tree is read back from its fully parenthesised token rendering** -/
theorem parse_fully_parenthesised (t : Ast) (hc : Canon t) : parseToks (toks t) = .ok t := parse_toks t hc

/-- **redundant parentheses**: an extra pair around the whole formula gives the same tree -/
theorem extra_parentheses_transparent (t : Ast) (hc : Canon t) : parseToks (.lp :: (toks t ++ [.rp])) = .ok t :=
  parse_extra_parens t hc

/-- … and around any operand, in any context that expects an operand -/
theorem extra_parentheses_inside (t : Ast) (hc : Canon t) (s : PState) (he : Expects s.prev) (ht : TopLO s.st) :
    runToks (.lp :: (toks t ++ [.rp])) s = .ok ⟨bump s.st, t :: s.out, .rparen⟩ := paren_transparent t hc s he ht

/-- non-vacuity: `(1 + (-A1 * SUM(2, 3)%))` is canonical, so its rendering parses back to it -/
def exTree : Ast :=
  .op "+" [.operand .num "1", .op "*" [.op "u-" [.operand .range "A1"], .op "%" [.call "SUM" [.operand .num "2", .operand .num "3"]]]]

theorem exTree_canon : Canon exTree := by
  refine Canon.bin _ _ _ (by decide) (Canon.operand _ _) (Canon.bin _ _ _ (by decide) ?_ ?_)
  · exact Canon.sign _ _ (by decide) (Canon.operand _ _) rfl
  · exact Canon.percent _ (Canon.call _ _ (by intro a ha; simp at ha; rcases ha with rfl | rfl <;> exact Canon.operand _ _))

example : parseToks (toks exTree) = .ok exTree := parse_toks exTree exTree_canon

/-! ### precedence and associativity determine the tree (token level, unbounded) -/

/-- **any sufficiently parenthesised spelling is read back as the tree** — `Sp t ts q`: `ts` spells `t`
with parentheses wherever the grammar needs them (the left operand of an operator of strength `p` is
spelled with outermost strength `≥ p`, the right operand with `> p`: all binary operators group
left to right; `%` takes `≥ 6`, a prefix sign `> 7`) and any number of further, redundant ones.  Trees of
every size and depth, calls with any number of arguments. -/
theorem any_spelling_parses (t : Ast) (ts : List Tok) (q : Nat) (h : Sp t ts q) : parseToks ts = .ok t :=
  parse_spelling t ts q h

/-- **the spelling with the fewest parentheses is read back as the tree** (`toksM`: parentheses only
where a weaker operator is an operand of a stronger one, or an equally strong one stands on the right) -/
theorem minimal_spelling_parses (t : Ast) (h : WFTree t) : parseToks (toksM t) = .ok t := parse_min t h

/-- a token list is a spelling of at most one tree: parentheses, precedence and left-to-right grouping
leave no ambiguity -/
theorem spelling_unambiguous (t t' : Ast) (ts : List Tok) (q q' : Nat) (h : Sp t ts q) (h' : Sp t' ts q') : t = t' :=
  spelling_unique t t' ts q q' h h'

/-- left-to-right grouping, for every binary operator and all operands: `a ∘ b ∘ c` without
parentheses is `(a ∘ b) ∘ c` — exponentiation included -/
theorem groups_left_to_right (name : String) (hn : name ∈ binNames) (a b c : Ast) (ta tb tc : List Tok)
    (ha : Sp a ta 9) (hb : Sp b tb 9) (hc : Sp c tc 9) :
    parseToks (ta ++ .opr name :: tb ++ .opr name :: tc) = .ok (.op name [.op name [a, b], c]) := by
  obtain ⟨_, hp5⟩ := prec_bin name hn
  have h1 := Sp.bin name a b ta tb 9 9 hn ha hb (by omega) (by omega)
  have h2 := Sp.bin name (.op name [a, b]) c _ tc (prec name) 9 hn h1 hc (Nat.le_refl _) (by omega)
  have := parse_spelling _ _ _ h2
  simpa [List.append_assoc] using this

/-- a stronger operator on the right takes its operands first: `a ∘ b • c` is `a ∘ (b • c)` when `•`
binds more strongly than `∘`; a weaker or equal one does not: `a • b ∘ c` is `(a • b) ∘ c` -/
theorem stronger_binds_first (m n : String) (hm : m ∈ binNames) (hn : n ∈ binNames) (hlt : prec m < prec n)
    (a b c : Ast) (ta tb tc : List Tok) (ha : Sp a ta 9) (hb : Sp b tb 9) (hc : Sp c tc 9) :
    parseToks (ta ++ .opr m :: (tb ++ .opr n :: tc)) = .ok (.op m [a, .op n [b, c]]) ∧
    parseToks (ta ++ .opr n :: tb ++ .opr m :: tc) = .ok (.op m [.op n [a, b], c]) := by
  obtain ⟨_, hm5⟩ := prec_bin m hm
  obtain ⟨_, hn5⟩ := prec_bin n hn
  constructor
  · have h1 := Sp.bin n b c tb tc 9 9 hn hb hc (by omega) (by omega)
    exact parse_spelling _ _ _ (Sp.bin m a (.op n [b, c]) ta _ 9 (prec n) hm ha h1 (by omega) hlt)
  · have h1 := Sp.bin n a b ta tb 9 9 hn ha hb (by omega) (by omega)
    have h2 := Sp.bin m (.op n [a, b]) c _ tc (prec n) 9 hm h1 hc (by omega) (by omega)
    have := parse_spelling _ _ _ h2
    simpa [List.append_assoc] using this

/-- a prefix sign binds more strongly than every binary operator and than `%`: `-a ∘ b` is `(-a) ∘ b`
and `-a%` is `(-a)%` -/
theorem sign_binds_strongest (sgn : String) (hs : sgn ∈ signNames) (n : String) (hn : n ∈ binNames)
    (a b : Ast) (ta tb : List Tok) (ha : Sp a ta 9) (hb : Sp b tb 9) :
    parseToks (.opr (signSym sgn) :: ta ++ .opr n :: tb) = .ok (.op n [.op sgn [a], b]) ∧
    parseToks (.opr (signSym sgn) :: ta ++ [.opr "%"]) = .ok (.op "%" [.op sgn [a]]) := by
  obtain ⟨_, hn5⟩ := prec_bin n hn
  have h1 := Sp.sign sgn a ta 9 hs ha (by omega)
  constructor
  · have := parse_spelling _ _ _ (Sp.bin n (.op sgn [a]) b _ tb 7 9 hn h1 hb (by omega) (by omega))
    simpa using this
  · have := parse_spelling _ _ _ (Sp.percent (.op sgn [a]) _ 7 h1 (by omega))
    simpa using this

/-- **empty arguments keep their position** (unbounded form of `empty_arguments_keep_position`): whatever the
spellings `ta`, `tb` of two arguments, `F(ta,,tb)`, `F(,ta)` and `F(ta,)` are calls with the empty argument
exactly where nothing was written -/
theorem empty_argument_positions (f : String) (a b : Ast) (ta tb : List Tok) (qa qb : Nat)
    (ha : Sp a ta qa) (hb : Sp b tb qb) (hta : ta ≠ []) (htb : tb ≠ []) :
    parseToks (.fn f :: (ta ++ .sep :: .sep :: tb ++ [.rp])) = .ok (.call f [a, .operand .empty "", b]) ∧
    parseToks (.fn f :: (.sep :: ta ++ [.rp])) = .ok (.call f [.operand .empty "", a]) ∧
    parseToks (.fn f :: (ta ++ [.sep] ++ [.rp])) = .ok (.call f [a, .operand .empty ""]) := by
  refine ⟨?_, ?_, ?_⟩
  · have := parse_spelling _ _ _ (Sp.call f [(a, ta, qa), (.operand .empty "", [], 0), (b, tb, qb)]
      (by intro x hx hne; simp at hx; rcases hx with rfl | rfl | rfl
          · exact ha
          · exact absurd rfl hne
          · exact hb)
      (by intro x hx hnil; simp at hx; rcases hx with rfl | rfl | rfl
          · exact absurd hnil hta
          · rfl
          · exact absurd hnil htb)
      (by intro x hx; simp at hx))
    simpa [joinSep] using this
  · have := parse_spelling _ _ _ (Sp.call f [(.operand .empty "", [], 0), (a, ta, qa)]
      (by intro x hx hne; simp at hx; rcases hx with rfl | rfl
          · exact absurd rfl hne
          · exact ha)
      (by intro x hx hnil; simp at hx; rcases hx with rfl | rfl
          · rfl
          · exact absurd hnil hta)
      (by intro x hx; simp at hx))
    simpa [joinSep] using this
  · have := parse_spelling _ _ _ (Sp.call f [(a, ta, qa), (.operand .empty "", [], 0)]
      (by intro x hx hne; simp at hx; rcases hx with rfl | rfl
          · exact ha
          · exact absurd rfl hne)
      (by intro x hx hnil; simp at hx; rcases hx with rfl | rfl
          · exact absurd hnil hta
          · rfl)
      (by intro x hx; simp at hx))
    simpa [joinSep] using this

/-- non-vacuity: `1 - 2 - (3 - 4) ^ -A1% * SUM(2, 5 & "x", F())` is well formed; its minimal spelling has
exactly one pair of parentheses and parses back -/
def exTree2 : Ast :=
  .op "-" [.op "-" [.operand .num "1", .operand .num "2"],
    .op "*" [.op "^" [.op "-" [.operand .num "3", .operand .num "4"], .op "%" [.op "u-" [.operand .range "A1"]]],
      .call "SUM" [.operand .num "2", .op "&" [.operand .num "5", .operand .str "x"], .call "F" []]]]

theorem exTree2_wf : WFTree exTree2 := by
  refine WFTree.bin _ _ _ (by decide) (WFTree.bin _ _ _ (by decide) (WFTree.operand _ _) (WFTree.operand _ _)) (WFTree.bin _ _ _ (by decide) ?_ ?_)
  · exact WFTree.bin _ _ _ (by decide) (WFTree.bin _ _ _ (by decide) (WFTree.operand _ _) (WFTree.operand _ _))
      (WFTree.percent _ (WFTree.sign _ _ (by decide) (WFTree.operand _ _)))
  · refine WFTree.call _ _ ?_ ?_ ?_
    · intro a ha _
      simp at ha
      rcases ha with rfl | rfl | rfl
      · exact WFTree.operand _ _
      · exact WFTree.bin _ _ _ (by decide) (WFTree.operand _ _) (WFTree.operand _ _)
      · exact WFTree.call _ _ (by intro a ha; simp at ha) (by intro a ha; simp at ha) (by intro a ha; simp at ha)
    · intro a ha he
      simp at ha
      rcases ha with rfl | rfl | rfl <;> simp [isEmptyArg] at he
    · intro a ha; simp at ha

example : parseToks (toksM exTree2) = .ok exTree2 := parse_min exTree2 exTree2_wf

example : toksM exTree2 =
    [.operand .num "1", .opr "-", .operand .num "2", .opr "-", .lp, .operand .num "3", .opr "-", .operand .num "4", .rp,
     .opr "^", .opr "-", .operand .range "A1", .opr "%", .opr "*", .fn "SUM", .operand .num "2", .sep,
     .operand .num "5", .opr "&", .operand .str "x", .sep, .fn "F", .rp, .rp] := by decide

/-! ### … and on the formula text (character level, unbounded) -/

open XL.LexText in
/-- **from tokens to text**: whenever the tokens of a delimited compact spelling (`SafeT`: every token is
followed by a character that ends it — an operand by an operator symbol, `%`, `)` or `,`; an operator by the
start of an operand; `+`/`-` not by another sign; `%` not by `%`) parse to a tree, the formula text made of
their characters parses to the same tree: the ten filters of the tokeniser loop, in their order, cut the text
into exactly these tokens -/
theorem tokens_to_text (ss : List TS) (hs : SafeT ss []) (hne : ss ≠ []) (t : Ast)
    (h : parseToks (ss.map TS.tok) = .ok t) : parseString ('=' :: textOf ss) = .ok t := parse_text ss hs hne t h

open XL.LexText in
/-- **the compact text of every well-formed tree is read back as that tree** — trees of any size and depth over
unsigned integers, cell names, string literals without embedded quotes, the twelve binary operators, signs, `%`
and function calls; the text has no blanks and parentheses only where precedence and left-to-right grouping
need them, around `x%` under `%`, and around a signed right operand of `+`/`-` -/
theorem compact_text_parses (ct : CT) (h : CT.WF ct) : parseString ct.text = .ok ct.toAst :=
  LexText.compact_text_parses ct h

open XL.LexText in
/-- **blanks between the tokens do not matter**: behind every token of the compact text any number of blanks may be
written where the tokeniser allows them (`GapsOK`: behind a separator or a binary operator; in front of an operator,
a sign, `%`, a separator, a closing parenthesis), none behind the last token — the text still parses to the tree -/
theorem blanks_between_tokens (ct : CT) (h : CT.WF ct) (gs : List GT) (hf : fsts gs = ct.spec)
    (hg : GapsOK gs none) (hl : (gs.getLast?.map (·.2)) = some 0) :
    parseString ('=' :: textG gs) = .ok ct.toAst :=
  LexText.compact_text_with_blanks_parses ct h gs hf hg hl

open XL.LexText in
/-- non-vacuity: `=1-2-(3-4)^-A1%*SUM(2,5&"x y",-(+BC20),(7%)%,1+(-2))` is the compact text of a well-formed tree -/
def exCT : CT := .bin "-" (.bin "-" (.num ['1']) (.num ['2']))
  (.bin "*" (.bin "^" (.bin "-" (.num ['3']) (.num ['4'])) (.pct (.neg true (.cell ['A'] ['1']))))
    (.call ['S', 'U', 'M'] [.num ['2'], .bin "&" (.num ['5']) (.str ['x', ' ', 'y']), .neg true (.neg false (.cell ['B', 'C'] ['2', '0'])),
      .pct (.pct (.num ['7'])), .bin "+" (.num ['1']) (.neg true (.num ['2']))]))

open XL.LexText in
example : exCT.text = "=1-2-(3-4)^-A1%*SUM(2,5&\"x y\",-(+BC20),(7%)%,1+(-2))".toList := by decide

open XL.LexText in
theorem exCT_wf : CT.WF exCT := by
  have n : ∀ c, c ∈ digitsL → CT.WF (.num [c]) := fun c hc => CT.WF.num [c] (by simp) (by intro x hx; simp at hx; rw [hx]; exact hc)
  have cellA1 : CT.WF (.cell ['A'] ['1']) := CT.WF.cell _ _ ⟨by decide, by decide, by decide, by decide, by decide⟩
  have cellBC : CT.WF (.cell ['B', 'C'] ['2', '0']) := CT.WF.cell _ _ ⟨by decide, by decide, by decide, by decide, by decide⟩
  refine CT.WF.bin _ _ _ (by decide) (CT.WF.bin _ _ _ (by decide) (n _ (by decide)) (n _ (by decide))) ?_
  refine CT.WF.bin _ _ _ (by decide) (CT.WF.bin _ _ _ (by decide) (CT.WF.bin _ _ _ (by decide) (n _ (by decide)) (n _ (by decide)))
    (CT.WF.pct _ (CT.WF.neg _ _ cellA1))) ?_
  refine CT.WF.call _ _ ⟨'S', ['U', 'M'], rfl, by decide⟩ (by decide) ?_
  intro a ha
  simp only [List.mem_cons, List.not_mem_nil, or_false] at ha
  rcases ha with rfl | rfl | rfl | rfl | rfl
  · exact n _ (by decide)
  · exact CT.WF.bin _ _ _ (by decide) (n _ (by decide)) (CT.WF.str _ (by decide))
  · exact CT.WF.neg _ _ (CT.WF.neg _ _ cellBC)
  · exact CT.WF.pct _ (CT.WF.pct _ (n _ (by decide)))
  · exact CT.WF.bin _ _ _ (by decide) (n _ (by decide)) (CT.WF.neg _ _ (n _ (by decide)))

open XL.LexText in
example : parseString exCT.text = .ok exCT.toAst := compact_text_parses exCT exCT_wf

end XL.C01
