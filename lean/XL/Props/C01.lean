import XL.Model.Lex
import XL.Proofs.Range
import XL.Proofs.ParseRender
/-!
# C01 — formulas are parsed according to Excel's operator grammar

Theorems about the model of the tokeniser and the shunting-yard (`XL.Model.Lex`,
`XL.Model.Syntax`), instantiated with the precedence and arity tables **generated from the source**.

* `prec_chain`, `arities`: the binding strengths are the ones the property lists;
* `pairs_grouping`, `triples_grouping`: for **every** ordered pair / triple of the 12 binary operators,
  the minimal spelling of each parenthesisation parses to that tree (kernel evaluation over the whole
  finite table of operator symbols — the exhaustive part of the property's quantifier);
* `sign_and_percent`: the unary sign binds tighter than `%`, `%` tighter than `^`;
* `empty_arguments_keep_position`, `array_rows`, `ragged_rejected`: separators split arguments only
  at top level, empty arguments keep their index, array literals become nested `ARRAY` calls;
* `redundant_parentheses`, `blanks_and_case`: instances of spelling independence;
* `signrun_counterexample`: the pinned code folds sign runs — the model reproduces it (known finding).

* **trees of unbounded depth**: `parse_fully_parenthesised` — for EVERY canonical tree (binary
  operators with operands of any depth, a sign on an operand / parenthesised expression / call, `%` on
  anything, calls with any number of arguments) the shunting-yard reads the fully parenthesised token
  rendering (`toks`, the token form of the exported text) back to exactly that tree, by induction on the
  tree; `extra_parentheses_transparent` — one more pair of parentheses around it changes nothing.
  `Canon` excludes a sign directly on a sign and a sign directly on a percentage: those spellings
  (`--x`, `-x%`) group differently (`sign-run`; `-x%` is `(-x)%`, see `sign_and_percent`).  The step from
  characters to tokens (`XL.Model.Lex`) is covered by the pair / triple theorems and the correspondence.
-/
namespace XL.C01
open XL

/-- comparisons ≺ `&` ≺ `+ -` ≺ `* /` ≺ `^` ≺ `%` ≺ unary sign ≺ reference operators,
equal rank inside each group -/
theorem prec_chain :
    (["=", "<", ">", "<=", ">=", "<>"].map precOf = List.replicate 6 (some 1)) ∧
    precOf "&" = some 2 ∧ precOf "+" = some 3 ∧ precOf "-" = some 3 ∧ precOf "*" = some 4 ∧ precOf "/" = some 4 ∧
    precOf "^" = some 5 ∧ precOf "%" = some 6 ∧ precOf "u-" = some 7 ∧ precOf "u+" = some 7 ∧
    precOf ":" = some 8 ∧ precOf " " = some 8 ∧ precOf "," = some 8 := by decide

theorem arities : arityOf "u-" = 1 ∧ arityOf "u+" = 1 ∧ arityOf "%" = 1 ∧
    (["=", "<", ">", "<=", ">=", "<>", "&", "+", "-", "*", "/", "^", ":", " ", ","].map arityOf = List.replicate 15 2) := by decide

def binOps : List String := ["=", "<", ">", "<=", ">=", "<>", "&", "+", "-", "*", "/", "^"]

/-- the observable: the fully parenthesised rendering of the tree the text is parsed to
(`none` when the text is rejected) -/
def parseR (s : String) : Option String :=
  match parseString s.toList with
  | .ok t => some (render t)
  | .error _ => none

def b (o l r : String) : String := "(" ++ l ++ " " ++ o ++ " " ++ r ++ ")"

/-- the tree the grammar assigns to `2 o1 3 o2 4`: the tighter operator first, equal rank left to right -/
def expectPair (o1 o2 : String) : String :=
  if (precOf o2).getD 0 > (precOf o1).getD 0 then b o1 "2" (b o2 "3" "4") else b o2 (b o1 "2" "3") "4"

def pairOK (o1 o2 : String) : Bool :=
  parseR ("=2" ++ o1 ++ "3" ++ o2 ++ "4") == some (expectPair o1 o2) &&
  parseR ("=(2" ++ o1 ++ "3)" ++ o2 ++ "4") == some (b o2 (b o1 "2" "3") "4") &&
  parseR ("=2" ++ o1 ++ "(3" ++ o2 ++ "4)") == some (b o1 "2" (b o2 "3" "4"))

/-- **every ordered pair of binary operators**: precedence, left-to-right grouping of equal rank,
parentheses override -/
theorem pairs_grouping : binOps.all (fun o1 => binOps.all (fun o2 => pairOK o1 o2)) = true := by
  decide +kernel

def numTok (s : String) : Tok := .operand .num s
def parseTR (ts : List Tok) : Option String :=
  match parseToks ts with
  | .ok t => some (render t)
  | .error _ => none
def pr (o : String) : Nat := (precOf o).getD 0

/-- rendering the grammar assigns to `2 o1 3 o2 4 o3 5` -/
def expectTriple (o1 o2 o3 : String) : String :=
  if pr o2 > pr o1 then
    if pr o3 > pr o2 then b o1 "2" (b o2 "3" (b o3 "4" "5"))
    else if pr o3 > pr o1 then b o1 "2" (b o3 (b o2 "3" "4") "5")
    else b o3 (b o1 "2" (b o2 "3" "4")) "5"
  else
    if pr o3 > pr o2 then b o2 (b o1 "2" "3") (b o3 "4" "5")
    else b o3 (b o2 (b o1 "2" "3") "4") "5"

def tripleOK (o1 o2 o3 : String) : Bool :=
  parseTR [numTok "2", .opr o1, numTok "3", .opr o2, numTok "4", .opr o3, numTok "5"] == some (expectTriple o1 o2 o3)

/-- **every ordered triple of binary operators** (all 1728, on the token stream) -/
theorem triples_grouping :
    binOps.all (fun o1 => binOps.all (fun o2 => binOps.all fun o3 => tripleOK o1 o2 o3)) = true := by
  decide +kernel

/-- the unary sign binds tighter than `%`, `%` tighter than `^`, and a sign after an operator is unary -/
theorem sign_and_percent :
    parseR "=-2^2" = some "(-2 ^ 2)" ∧ parseR "=2^-2" = some "(2 ^ -2)" ∧ parseR "=2^3%" = some "(2 ^ 3%)" ∧
    parseR "=-2%" = some "-2%" ∧ parseR "=-(2^2)" = some "-(2 ^ 2)" ∧ parseR "=2*-3" = some "(2 * -3)" ∧
    parseR "=(2+3)%" = some "(2 + 3)%" ∧ parseR "=2-3" = some "(2 - 3)" ∧ parseR "=(2)-3" = some "(2 - 3)" ∧
    parseR "=2%-3" = some "(2% - 3)" := by decide +kernel

/-- arguments are split only at top-level separators and empty arguments keep their position -/
theorem empty_arguments_keep_position :
    parseR "=IF(,1,2)" = some "IF(, 1, 2)" ∧ parseR "=IF(1,,2)" = some "IF(1, , 2)" ∧
    parseR "=IF(1,2,)" = some "IF(1, 2, )" ∧ parseR "=SUM()" = some "SUM()" ∧
    parseR "=SUM((1+2)*3,MAX(4,5),6)" = some "SUM(((1 + 2) * 3), MAX(4, 5), 6)" ∧
    parseR "=SUM(1,(A1,B2),3)" = some "SUM(1, (A1, B2), 3)" := by decide +kernel

/-- array-literal rows and columns are nested `ARRAY` calls; ragged rows are rejected -/
theorem array_rows :
    parseR "={1,2;3,4}" = some "ARRAY(ARRAY(1, 2), ARRAY(3, 4))" ∧ parseR "={1;2;3}" = some "ARRAY(ARRAY(1), ARRAY(2), ARRAY(3))" ∧
    parseR "={1,2,3}" = some "ARRAY(ARRAY(1, 2, 3))" ∧ parseR "=SUM({1,2},3)" = some "SUM(ARRAY(ARRAY(1, 2)), 3)" := by
  decide +kernel

theorem ragged_rejected :
    parseR "={1,2;3}" = none ∧ parseR "={1;2,3}" = none ∧ parseR "={1,2;3,4;5}" = none ∧ parseR "={}" = none := by
  decide +kernel

/-- instances of independence from redundant parentheses, blanks and letter case -/
theorem spelling_instances :
    parseR "=((1))+(2*(3))" = parseR "=1+2*3" ∧ parseR "= 1 +  2 * 3 " = parseR "=1+2*3" ∧
    parseR "=sum( a1 , $B$2 )" = parseR "=SUM(A1,B2)" ∧ parseR "=(SUM((1)))" = parseR "=SUM(1)" ∧
    parseR "=1+2*3" = some "(1 + (2 * 3))" ∧ parseR "=SUM(A1,B2)" = some "SUM(A1, B2)" := by decide +kernel

/-- **known finding `sign-run`**: the pinned code folds a run of signs into one sign by parity
before parsing; the model reproduces it.  The grammar assigns `(1 + (-2 ^ 2))` and `--"3"`. -/
theorem signrun_counterexample :
    parseR "=1+-2^2" = some "(1 - (2 ^ 2))" ∧ parseR "=--\"3\"" = some "+\"3\"" ∧
    parseR "=1--2" = some "(1 + 2)" := by decide +kernel

/-! ### trees of unbounded depth (token level) -/

/-- **every canonical tree is read back from its fully parenthesised token rendering** -/
theorem parse_fully_parenthesised (t : Ast) (hc : Canon t) : parseToks (toks t) = .ok t := parse_toks t hc

/-- **redundant parentheses**: an extra pair around the whole formula gives the same tree -/
theorem extra_parentheses_transparent (t : Ast) (hc : Canon t) : parseToks (.lp :: (toks t ++ [.rp])) = .ok t :=
  parse_extra_parens t hc

/-- … and around any operand, in any context that expects an operand -/
theorem extra_parentheses_inside (t : Ast) (hc : Canon t) (s : PState) (he : Expects s.prev) (ht : TopLO s.st) :
    runToks (.lp :: (toks t ++ [.rp])) s = .ok ⟨bump s.st, t :: s.out, .rparen⟩ := paren_transparent t hc s he ht

/-- non-vacuity: `(1 + (-A1 * SUM(2, 3)%))` is canonical, so its rendering parses back to it -/
def exTree : Ast :=
  .op "+" [.operand .num "1", .op "*" [.op "u-" [.operand .range "A1"], .op "%" [.call "SUM" [.operand .num "2", .operand .num "3"]]]]

theorem exTree_canon : Canon exTree := by
  refine Canon.bin _ _ _ (by decide) (Canon.operand _ _) (Canon.bin _ _ _ (by decide) ?_ ?_)
  · exact Canon.sign _ _ (by decide) (Canon.operand _ _) rfl
  · exact Canon.percent _ (Canon.call _ _ (by intro a ha; simp at ha; rcases ha with rfl | rfl <;> exact Canon.operand _ _))

example : parseToks (toks exTree) = .ok exTree := parse_toks exTree exTree_canon

end XL.C01
