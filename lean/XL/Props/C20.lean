import XL.Proofs.Cal
import XL.Proofs.Eng
import XL.Proofs.Range
import XL.Generated.Tables
/-!
# C20 — calendar and number-system conversions are exact inverses

* dates: proved for **every** serial `0 … 2 958 465` — not by enumeration: the civil-from-days /
  days-from-civil pair is inverse for all day numbers (`civil_roundtrip`, `omega` + one
  case-split lemma), the Excel layer (`_int2date`, `xdate`, `_date`) is unfolded on top;
* weekday: successor law in all 10 numbering modes, for every serial;
* `DEC2BIN/OCT/HEX` and inverses: for the masks **generated from the source**, every integer of the
  two's-complement range;
* `ROMAN/ARABIC`: all 4000 × 5 arguments by kernel evaluation over the numeral tables
  **generated from the source** (`decide +kernel`, no extra axiom).

`TIME/HOUR/MINUTE/SECOND` are floating-point computations and are not modelled in Lean; they are
enumerated on the implementation (all 86 400 seconds) by the check — not a proof (DESIGN §2.5).
-/
namespace XL.C20
open XL

def maxSerial : Nat := 2958465

/-- every day number is the day number of its own civil date (all naturals) -/
theorem civil_inverse (z : Nat) : daysFromCivil (civilY z) (civilM z) (civilD z) = z := civil_roundtrip z

/-- … and the civil date is a real date -/
theorem civil_valid (z : Nat) : 1 ≤ civilM z ∧ civilM z ≤ 12 ∧ 1 ≤ civilD z ∧
    (civilD z : Int) ≤ daysInMonth (civilY z) (civilM z) :=
  ⟨(civilM_range z).1, (civilM_range z).2, civilD_pos z, civilD_le z⟩

theorem early_serials : allRange (fun k => dateRoundTripOK maxSerial k) 6 0 61 = true := by decide +kernel

/-- **DATE(YEAR(n), MONTH(n), DAY(n)) = n for every serial of the supported range** -/
theorem date_roundtrip (n : Int) (h0 : 0 ≤ n) (h1 : n ≤ 2958465) : dateRoundTripOK maxSerial n = true := by
  by_cases h : 60 < n
  · obtain ⟨y, m, d, e1, e2⟩ := serial_roundtrip_late (pyFuel - 1) n h h1
    have hf : pyFuel - 1 + 1 = pyFuel := by decide
    rw [hf] at e2
    unfold dateRoundTripOK maxSerial
    rw [e1]; simp only; rw [e2]; simp
  · have := allRange_sound _ 6 0 61 (by decide) early_serials n.toNat (by omega) (by omega)
    have hn : ((n.toNat : Nat) : Int) = n := Int.toNat_of_nonneg h0
    simpa [hn] using this

/-- the fictitious 29 Feb 1900, day 0, and `#NUM!` outside the range -/
theorem date_special :
    int2date maxSerial 60 = .ok (1900, 2, 29) ∧ int2date maxSerial 0 = .ok (1900, 1, 0) ∧
    int2date maxSerial 59 = .ok (1900, 2, 28) ∧ int2date maxSerial 61 = .ok (1900, 3, 1) ∧
    int2date maxSerial 1 = .ok (1900, 1, 1) ∧ int2date maxSerial 2958465 = .ok (9999, 12, 31) := by
  decide +kernel

theorem date_out_of_range (n : Int) (h : n < 0 ∨ 2958465 < n) : int2date maxSerial n = .error .num := by
  unfold int2date maxSerial
  have h1 : ¬ (60 < n ∧ n ≤ ((2958465 : Nat) : Int)) := by omega
  have h2 : ¬ n = 60 := by omega
  have h3 : ¬ n = 0 := by omega
  have h4 : ¬ (0 < n ∧ n < 60) := by omega
  simp [h2, h3, h4]
  omega

/-- **WEEKDAY advances by one per day** in the seven-valued modes 1, 2, 11 … 17 (values 1..7) … -/
theorem weekday_succ (n mode : Int) (h0 : 0 ≤ n) (h1 : n < 2958465)
    (hm : (1 ≤ mode ∧ mode ≤ 2) ∨ (11 ≤ mode ∧ mode ≤ 17)) :
    ∃ a b, xweekday maxSerial n mode = .ok a ∧ xweekday maxSerial (n + 1) mode = .ok b ∧
      1 ≤ a ∧ a ≤ 7 ∧ b = a % 7 + 1 := by
  unfold xweekday maxSerial
  have r1 : (0 ≤ n ∧ n ≤ ((2958465 : Nat) : Int)) := by omega
  have r2 : (0 ≤ n + 1 ∧ n + 1 ≤ ((2958465 : Nat) : Int)) := by omega
  simp only [r1, r2, not_true_eq_false, if_false, and_self]
  rcases hm with hm | hm
  · simp only [hm, and_self, if_true]
    refine ⟨_, _, rfl, rfl, ?_⟩
    split <;> split <;> omega
  · have h12 : ¬ (1 ≤ mode ∧ mode ≤ 2) := by omega
    have h3 : ¬ mode = 3 := by omega
    simp only [h12, h3, hm, and_self, if_true, if_false]
    refine ⟨_, _, rfl, rfl, ?_⟩
    split <;> split <;> omega

/-- … and in mode 3 (values 0..6) -/
theorem weekday_succ_mode3 (n : Int) (h0 : 0 ≤ n) (h1 : n < 2958465) :
    ∃ a b, xweekday maxSerial n 3 = .ok a ∧ xweekday maxSerial (n + 1) 3 = .ok b ∧
      0 ≤ a ∧ a ≤ 6 ∧ b = (a + 1) % 7 := by
  unfold xweekday maxSerial
  have r1 : (0 ≤ n ∧ n ≤ ((2958465 : Nat) : Int)) := by omega
  have r2 : (0 ≤ n + 1 ∧ n + 1 ≤ ((2958465 : Nat) : Int)) := by omega
  simp only [r1, r2, not_true_eq_false, if_false, and_self]
  refine ⟨_, _, rfl, rfl, ?_⟩
  omega

theorem weekday_bad_mode (n mode : Int) (hm : mode < 1 ∨ (3 < mode ∧ mode < 11) ∨ 17 < mode) :
    xweekday maxSerial n mode = .error .num := by
  unfold xweekday
  split
  · rfl
  · have a : ¬ (1 ≤ mode ∧ mode ≤ 2) := by omega
    have b : ¬ mode = 3 := by omega
    have c : ¬ (11 ≤ mode ∧ mode ≤ 17) := by omega
    simp [a, b, c]

/-! ### two's-complement base conversion, masks generated from the source -/

/-! ### TIME and its inverses (exact rationals; the floating-point instance is enumerated on the implementation) -/

/-- **HOUR, MINUTE and SECOND invert TIME for every second of the day**: the hours and minutes are found
exactly, the seconds before rounding are `s + 10⁻⁶`, `1.1·10⁻⁶` is taken off and the nearest integer is
`s` — at distance `10⁻⁷`, never a tie, so the rounding mode does not matter -/
theorem time_roundtrip_exact (h m s : Int) (h0 : 0 ≤ h) (h1 : h < 24) (m0 : 0 ≤ m) (m1 : m < 60)
    (s0 : 0 ≤ s) (s1 : s < 60) :
    hmsOfTime h m s = (h, m, s) ∧ (n2time (timeSecs h m s)).2.2 = s * timeDen + 86400 := by
  have hT : timeSecs h m s = 3600 * h + 60 * m + s := by unfold timeSecs; omega
  simp only [hmsOfTime, n2time, roundSecs, timeDen, hT, Prod.mk.injEq]
  omega

/-- `TIME` wraps around the day and carries overflowing components: whole seconds modulo 86 400 -/
theorem time_wraps (h m s : Int) : 0 ≤ timeSecs h m s ∧ timeSecs h m s < 86400 ∧
    timeSecs (h + 24) m s = timeSecs h m s ∧ timeSecs h (m + 60) s = timeSecs (h + 1) m s ∧
    timeSecs h m (s + 60) = timeSecs h (m + 1) s := by
  unfold timeSecs; omega

/-- overflowing components: `HOUR/MINUTE/SECOND(TIME(h, m, s))` are those of the normalised time of day -/
theorem time_roundtrip_overflow (h m s : Int) :
    hmsOfTime h m s = (timeSecs h m s / 3600, timeSecs h m s % 3600 / 60, timeSecs h m s % 60) := by
  have hb : 0 ≤ timeSecs h m s ∧ timeSecs h m s < 86400 := by unfold timeSecs; omega
  unfold hmsOfTime
  generalize timeSecs h m s = T at hb ⊢
  simp only [n2time, roundSecs, timeDen, Prod.mk.injEq]
  omega

example : hmsOfTime 23 59 59 = (23, 59, 59) ∧ hmsOfTime 25 61 75 = (2, 2, 15) := by decide

/-- the generated masks are the 10-digit two's-complement sign bits -/
theorem masks : Generated.xmask = [(2, 2 ^ 9), (8, 2 ^ 29), (16, 2 ^ 39)] := by decide

theorem x2dec_dec2x (mask b : Nat) (hmb : (b, mask) ∈ Generated.xmask) (n : Int)
    (h1 : -(mask : Int) ≤ n) (h2 : n < mask) :
    ∃ s, dec2x mask b n = .ok s ∧ x2dec mask b s = .ok n := by
  have hb : 2 ≤ b ∧ b ≤ 16 ∧ 2 * mask = b ^ 10 ∧ 0 < mask := by
    rw [masks] at hmb
    simp only [List.mem_cons, Prod.mk.injEq, List.not_mem_nil, or_false] at hmb
    rcases hmb with ⟨rfl, rfl⟩ | ⟨rfl, rfl⟩ | ⟨rfl, rfl⟩ <;> decide
  obtain ⟨hb1, hb2, hpow, hpos⟩ := hb
  refine ⟨toBase b (if n < 0 then n + 2 * mask else n).toNat, ?_, ?_⟩
  · unfold dec2x; simp [h1, h2]
  · generalize hm : (if n < 0 then n + 2 * (mask : Int) else n).toNat = m
    have hm2 : m < 2 * mask := by rw [← hm]; split <;> omega
    have hlen : (toBase b m).length ≤ 10 := toBase_length b hb1 9 m (by rw [← hpow]; exact hm2)
    have hval : validDigits b (toBase b m) = true := by
      unfold validDigits
      have h1 : (toBase b m).isEmpty = false := by
        cases h : toBase b m with
        | nil => exact absurd h (toBase_ne_nil b m)
        | cons _ _ => rfl
      simp only [h1, Bool.not_false, Bool.true_and, List.all_eq_true, decide_eq_true_eq]
      exact toBase_valid b hb1 hb2 m
    unfold x2dec
    have : ¬ (toBase b m).length > 10 := by omega
    simp only [this, if_false, hval, if_true, ofBase_toBase b hb1 hb2 m]
    congr 1
    by_cases hneg : n < 0
    · have hmv : (m : Int) = n + 2 * mask := by rw [← hm]; simp [hneg]; omega
      have hq : m / mask = 1 := by
        have : mask ≤ m := by omega
        have := Nat.div_eq_of_lt_le (k := 1) (by omega : 1 * mask ≤ m) (by omega : m < (1 + 1) * mask)
        exact this
      simp [hq]; omega
    · have hmv : (m : Int) = n := by rw [← hm]; simp [hneg]; omega
      have hq : m / mask = 0 := Nat.div_eq_of_lt (by omega)
      simp [hq]; omega

theorem dec2x_out_of_range (mask b : Nat) (n : Int) (h : n < -(mask : Int) ∨ (mask : Int) ≤ n) :
    dec2x mask b n = .error .num := by
  unfold dec2x
  have : ¬ (-(mask : Int) ≤ n ∧ n < mask) := by omega
  simp [this]

/-! ### with `places` -/

theorem valOf_zero : valOf '0' = 0 := by decide

theorem ofBase_pad (b k : Nat) (s : List Char) : ofBase b (List.replicate k '0' ++ s) = ofBase b s := by
  unfold ofBase
  rw [List.foldl_append]
  congr 1
  induction k with
  | zero => rfl
  | succ k ih => simp [List.replicate_succ, List.foldl_cons, valOf_zero, ih]

theorem validDigits_pad (b k : Nat) (hb : 0 < b) (s : List Char) (h : validDigits b s = true) :
    validDigits b (List.replicate k '0' ++ s) = true := by
  unfold validDigits at *
  simp only [Bool.and_eq_true, Bool.not_eq_true', List.all_eq_true, decide_eq_true_eq, List.isEmpty_eq_false_iff] at h ⊢
  refine ⟨?_, ?_⟩
  · intro hnil
    have := List.append_eq_nil_iff.mp hnil
    exact h.1 this.2
  · intro c hc
    rcases List.mem_append.mp hc with hc | hc
    · rw [List.eq_of_mem_replicate hc, valOf_zero]; exact hb
    · exact h.2 c hc

/-- **whatever `places` adds is read back as the same number**: every text `DEC2BIN/OCT/HEX(n, places)` returns,
for every `n` and every `places`, converts back to `n` — padding never reaches the sign digit -/
theorem x2dec_dec2xP (mask b : Nat) (hmb : (b, mask) ∈ Generated.xmask) (n places : Int) (s : List Char)
    (h : dec2xP mask b n places = .ok s) : x2dec mask b s = .ok n := by
  have hb : 2 ≤ b ∧ b ≤ 16 ∧ 2 * mask = b ^ 10 ∧ 0 < mask := by
    rw [masks] at hmb
    simp only [List.mem_cons, Prod.mk.injEq, List.not_mem_nil, or_false] at hmb
    rcases hmb with ⟨rfl, rfl⟩ | ⟨rfl, rfl⟩ | ⟨rfl, rfl⟩ <;> decide
  unfold dec2xP at h
  by_cases hr : -(mask : Int) ≤ n ∧ n < mask
  · obtain ⟨s0, hs0, hback⟩ := x2dec_dec2x mask b hmb n hr.1 hr.2
    rw [hs0] at h
    simp only at h
    by_cases hp : places ≤ 10 ∧ (if n < 0 then 0 else (s0.length : Int)) ≤ places
    · rw [if_pos hp] at h
      injection h with h
      subst h
      -- the unpadded text has valid digits and at most ten of them
      unfold x2dec at hback ⊢
      by_cases hl : s0.length > 10
      · simp [hl] at hback
      · simp only [hl, if_false] at hback
        by_cases hv : validDigits b s0 = true
        · simp only [hv, if_true] at hback
          have hlen : ¬ (List.replicate (places.toNat - s0.length) '0' ++ s0).length > 10 := by
            simp only [List.length_append, List.length_replicate]; omega
          simp only [hlen, if_false, validDigits_pad b _ (by omega) s0 hv, if_true, ofBase_pad]
          exact hback
        · simp [hv] at hback
    · rw [if_neg hp] at h
      cases h
  · have : dec2x mask b n = .error .num := dec2x_out_of_range mask b n (by omega)
    rw [this] at h
    cases h

/-- a negative number keeps its digits for every admissible `places` -/
theorem dec2xP_negative (mask b : Nat) (n places : Int) (s : List Char) (hn : n < 0)
    (hs : dec2x mask b n = .ok s) (hlen : s.length = 10) (hp : 0 ≤ places ∧ places ≤ 10) :
    dec2xP mask b n places = .ok s := by
  unfold dec2xP
  rw [hs]
  have : places.toNat - s.length = 0 := by omega
  simp [hn, hp, this]

example : dec2xP (2 ^ 39) 16 10 4 = .ok "000A".toList := by decide +kernel
example : dec2xP (2 ^ 39) 16 (-1) 3 = .ok "FFFFFFFFFF".toList := by decide +kernel
example : dec2xP (2 ^ 9) 2 5 2 = .error .num := by decide +kernel

/-! ### ROMAN / ARABIC over the generated tables -/

def romanOK (tbl : List (Nat × String)) (n : Nat) : Bool :=
  arabic (romanGo (tbl.map fun (v, s) => (v, s.toList)) n) == some (n : Int)

def allForms : Bool :=
  Generated.romanTables.length == 5 && Generated.romanTables.all fun tbl => allRange (romanOK tbl) 12 0 4000

theorem roman_tables_ok : allForms = true := by decide +kernel

/-- **ARABIC(ROMAN(n, form)) = n** for every `n < 4000` and every form `0 … 4` -/
theorem roman_arabic (form n : Nat) (hf : form < 5) (hn : n < 4000) :
    ∃ tbl, Generated.romanTables[form]? = some tbl ∧ romanOK tbl n = true := by
  have h := roman_tables_ok
  unfold allForms at h
  simp only [Bool.and_eq_true, beq_iff_eq, List.all_eq_true] at h
  have hlen : form < Generated.romanTables.length := by omega
  refine ⟨Generated.romanTables[form], by simp [hlen], ?_⟩
  have := h.2 _ (List.getElem_mem hlen)
  exact allRange_sound _ 12 0 4000 (by decide) this n (by omega) (by omega)

/-! ### non-vacuity -/
example : int2date maxSerial 45000 = .ok (2023, 3, 15) := by decide +kernel
example : xdate pyFuel 2023 3 15 = .ok 45000 := by decide +kernel
example : dec2x (2 ^ 9) 2 (-1) = .ok "1111111111".toList := by decide +kernel
example : x2dec (2 ^ 39) 16 "FFFFFFFFFF".toList = .ok (-1) := by decide +kernel
example : (2, 2 ^ 9) ∈ Generated.xmask := by decide
example : romanGo [(1000, "M".toList), (900, "CM".toList), (500, ['D']), (400, "CD".toList), (100, ['C']), (90, "XC".toList),
    (50, ['L']), (40, "XL".toList), (10, ['X']), (9, "IX".toList), (5, ['V']), (4, "IV".toList), (1, ['I'])] 1994
    = "MCMXCIV".toList := by decide +kernel

end XL.C20
