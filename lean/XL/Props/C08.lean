import XL.Proofs.Compile
/-!
# C08 — compiled functions agree with interpretation for every argument

`ExcelModel.compile(inputs, outputs)` shrinks the model, pre-evaluates it without the inputs and
freezes every node that is not downstream of an input; the compiled function then evaluates the rest
with the arguments as supplied inputs.  In the model: `valueT b T` consults the frozen table `T`
before a cell's own definition, `withOverrides b l` supplies the arguments.

`AstBuilder.compile` (a single formula): the function takes the values of the formula's references as
arguments; in the model that is evaluating the expression in an environment whose cells hold the
arguments, which equals evaluating the expression with the arguments written in as literals.
-/
namespace XL.C08
open XL
variable {F : Type} [Num F]

/-- **whatever is pre-computed at compile time is never observable**: for every argument tuple `l`
(values supplied at the input addresses), evaluating with a frozen table whose entries are values of
cells independent of the inputs equals the full calculation with those inputs — including
arguments that change which branch, error or array shape arises, since no hypothesis restricts `l` -/
theorem compile_sound (b : Book F) (rank : Nat → Nat → Nat → Nat) (l : List ((Nat × Nat × Nat) × Val F))
    (T : Nat → Nat → Nat → Option (Val F)) (hb : Acyclic (withOverrides b l) rank)
    (hT : ∀ s r c v, T s r c = some v →
        (∀ x ∈ l, ¬ Reaches b (s, r, c) x.1) ∧ ∀ n, rank s r c < n → v = value b n s r c)
    (n s r c : Nat) (hn : rank s r c < n) :
    valueT (withOverrides b l) T n s r c = value (withOverrides b l) n s r c :=
  freeze_sound b rank l T hb hT n s r c hn

/-- a cell that depends on no input has the same value for every argument tuple (so freezing it is
legitimate) -/
theorem independent_of_arguments (b : Book F) (l l' : List ((Nat × Nat × Nat) × Val F)) (n s r c : Nat)
    (h : ∀ x ∈ l, ¬ Reaches b (s, r, c) x.1) (h' : ∀ x ∈ l', ¬ Reaches b (s, r, c) x.1) :
    value (withOverrides b l) n s r c = value (withOverrides b l') n s r c := by
  rw [overrides_independent b l n s r c h, overrides_independent b l' n s r c h']

/-- **a compiled formula equals the same formula with the arguments written in as literals** -/
theorem compileFormula_sound (env env0 : Env F) (hn : env.name = env0.name) (e : Expr F) :
    evalExpr env e = evalExpr env0 (substRefs (readRange env) e) := evalExpr_subst env env0 hn e

/-- the arguments a compiled formula needs are exactly its references -/
theorem compileFormula_inputs (env env' : Env F) (e : Expr F) (h : AgreeOn env env' (refsOf e) (namesOf e)) :
    evalExpr env e = evalExpr env' e := evalExpr_congr env env' e h

end XL.C08
