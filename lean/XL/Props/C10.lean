import XL.Proofs.Cycle
import XL.Proofs.Circ
import XL.Props.C02
/-!
# C10 — circular references: termination, isolation and exact marking

Two models.

* `XL.cycles` — the specification-level enumerator of elementary cycles.  `simple_cycles`
  (Johnson's algorithm with blocking sets over Tarjan's components) is tied to it by comparing the
  outputs on all digraphs with ≤ 3 / ≤ 4 vertices and random ones up to 9; the three theorems below say
  that the enumerator lists exactly the elementary cycles, each once.
* `XL.solved b cuts marks …` — the workbook `solve_circular` leaves behind, given the cuts and marks it
  chose.  Evaluation of that workbook is the total function `value` (termination: structural
  recursion on the fuel).  The decision procedure that chooses cuts and marks is **not** modelled
  (DESIGN §3 C10): the check reads the cuts and marks off the implementation, compares every value with
  `solved`, and constrains the choice by graph oracles (cells on a cycle through selected branches are
  errors, cells that close no such cycle have the value of the selected-branch workbook).

What the theorems add to the correspondence: whatever cuts and marks are chosen,
(1) a marked address is `#CIRC!` and arithmetic propagates it, (2) cells that cannot reach a
marked address or a cut formula have exactly the value of the original workbook and of the workbook
without the cyclic cells, (3) a cut inside a branch that is not selected is invisible — the reported
ordinary value is the value of the original formula on the reported values.
-/
namespace XL.C10
open XL
variable {F : Type} [Num F]

/-! ### cycle analysis -/

/-- **every reported list is an elementary cycle** of the graph: a closed path without repeated
vertex, written from its least vertex -/
theorem cycles_sound (adj : Nat → List Nat) (n : Nat) (c : List Nat) (h : c ∈ cycles adj n) :
    ∃ s q, s < n ∧ c = q.reverse ∧ RCycle adj s q := XL.cycles_sound adj n c h

/-- **every elementary cycle is reported** (as the rotation starting at its least vertex) -/
theorem cycles_complete (adj : Nat → List Nat) (n s : Nat) (q : List Nat) (hs : s < n)
    (hq : RCycle adj s q) (hlt : ∀ v ∈ q, v < n) : q.reverse ∈ cycles adj n := XL.cycles_complete' adj n s q hs hq hlt

/-- **exactly once** -/
theorem cycles_nodup (adj : Nat → List Nat) (hadj : ∀ v, (adj v).Nodup) (n : Nat) : (cycles adj n).Nodup :=
  XL.cycles_nodup adj hadj n

/-- the triangle with a chord: 0→1→2→0 and 1→0 has exactly the cycles [0,1] and [0,1,2] -/
example : cycles (fun v => if v = 0 then [1] else if v = 1 then [0, 2] else if v = 2 then [0] else []) 3 = [[0, 1], [0, 1, 2]] := by
  decide +kernel

/-- non-vacuity of `cycles_complete`: the reversed triangle is an `RCycle` -/
example : RCycle (fun v => if v = 0 then [1] else if v = 1 then [0, 2] else if v = 2 then [0] else []) 0 [2, 1, 0] where
  path := RPath.cons 2 1 [0] (by decide) (RPath.cons 1 0 [] (by decide) (RPath.single 0))
  nodup := by decide
  last := by decide
  close := by intro _; simp
  min := by decide

/-! ### marking -/

/-- **a marked address evaluates to the circular-reference error** -/
theorem marked_is_circ (b : Book F) (cuts : List Cut) (marks : List (Nat × Nat × Nat)) (nm : List String) (rm : List RRef)
    (n s r c : Nat) (h : (s, r, c) ∈ marks) : value (solved b cuts marks nm rm) (n + 1) s r c = .err .circ :=
  marked_value b cuts marks nm rm n s r c h

/-- **dependents propagate it as an error**: an operator with `#CIRC!` on the left is `#CIRC!`, on the
right it is `#CIRC!` unless the left operand is an error already -/
theorem circ_propagates (o : AOp) (y : Val F) :
    arith o (.err .circ) y = .err .circ ∧ (∀ x : Val F, ¬ IsErr x → arith o x (.err .circ) = .err .circ) := by
  constructor
  · simp [arith, firstErr]
  · intro x hx
    have := firstErr_right x .circ hx
    simp [arith, this]

/-- … and `IFERROR` / `ISERROR` see it as an error -/
theorem circ_interceptable (d : Val F) (hd : d = .text "d") :
    iferrorElem (.err .circ : Val F) d = .text "d" ∧ evalIserror [(.arr [[.err .circ]] : Res F)] = .arr [[.bool true]] := by
  subst hd
  simp [iferrorElem, evalIserror, map1, Res.toArr]

/-! ### isolation -/

/-- **every cell that is not downstream of a marked address or a cut formula has exactly the value it
has in the original workbook** … -/
theorem isolated_unchanged (b : Book F) (cuts : List Cut) (marks : List (Nat × Nat × Nat)) (nm : List String) (rm : List RRef)
    (n s r c : Nat)
    (h : ∀ s' r' c', Reaches b (s, r, c) (s', r', c') →
      (s', r', c') ∉ marks ∧ ∀ d ∈ b.cells, RelevantTo d s' r' c' → applyCuts cuts nm rm d = d) :
    value (solved b cuts marks nm rm) n s r c = value b n s r c := isolated_value b cuts marks nm rm n s r c h

/-- … **and in the workbook without the cyclic cells** (`keep` drops them; everything the cell can
reach is kept) -/
theorem isolated_without_cyclic_cells (b : Book F) (cuts : List Cut) (marks : List (Nat × Nat × Nat)) (nm : List String)
    (rm : List RRef) (keep : CellDef F → Bool) (n s r c : Nat)
    (h : ∀ s' r' c', Reaches b (s, r, c) (s', r', c') →
      (s', r', c') ∉ marks ∧ ∀ d ∈ b.cells, RelevantTo d s' r' c' → applyCuts cuts nm rm d = d ∧ keep d = true) :
    value (solved b cuts marks nm rm) n s r c = value (restrictBook b keep) n s r c := by
  rw [isolated_value b cuts marks nm rm n s r c (fun s' r' c' ht => ⟨(h s' r' c' ht).1, fun d hd hr => ((h s' r' c' ht).2 d hd hr).1⟩)]
  exact (sub_eq_full b keep n s r c (fun s' r' c' ht d hd hr => ((h s' r' c' ht).2 d hd hr).2)).symm

/-! ### only the selected branches count -/

/-- **the value of `IF` does not depend on the branch that is not selected** (single condition;
`hsel` says the condition value does not select the third argument) -/
theorem if_unselected_else (c x y y' : Res F) (cv yv yv' : Val F)
    (hc : blankTo (.num Num.zero) c.toArr = [[cv]]) (hsel : ∀ a b b', ifElem cv a b = ifElem cv a b')
    (hy : y.toArr = [[yv]]) (hy' : y'.toArr = [[yv']]) : evalIf [c, x, y] = evalIf [c, x, y'] :=
  evalIf_else_irrelevant c x y y' cv yv yv' hc hsel hy hy'

theorem if_unselected_then (c x x' y : Res F) (cv xv xv' : Val F)
    (hc : blankTo (.num Num.zero) c.toArr = [[cv]]) (hsel : ∀ a a' b, ifElem cv a b = ifElem cv a' b)
    (hx : x.toArr = [[xv]]) (hx' : x'.toArr = [[xv']]) : evalIf [c, x, y] = evalIf [c, x', y] :=
  evalIf_then_irrelevant c x x' y cv xv xv' hc hsel hx hx'

/-- the selection hypotheses are what truth values give: a true condition ignores the else-branch, a
false one the then-branch, an error or text condition both; a non-error value makes `IFERROR` ignore
its fallback, anything but `#N/A` makes `IFNA` ignore it -/
theorem selection_facts (a a' b b' : Val F) :
    ifElem (.bool true) a b = ifElem (.bool true) a b' ∧
    ifElem (.bool false) a b = ifElem (.bool false) a' b ∧
    (∀ e, ifElem (.err e) a b = ifElem (.err e) a' b') ∧
    (∀ t, ifElem (.text t) a b = ifElem (.text t) a' b') ∧
    (∀ x, iferrorElem (.num x : Val F) a = iferrorElem (.num x) a') ∧
    (∀ t, iferrorElem (.text t : Val F) a = iferrorElem (.text t) a') ∧
    (∀ e, e ≠ Err.na → ifnaElem (.err e : Val F) a = ifnaElem (.err e) a') := by
  refine ⟨by simp [ifElem, truthy], by simp [ifElem, truthy], by intro e; simp [ifElem], by intro t; simp [ifElem],
    by intro x; simp [iferrorElem], by intro t; simp [iferrorElem], ?_⟩
  intro e he
  cases e <;> simp_all [ifnaElem]

/-- **a cut inside branches that are not selected is invisible** (any nesting of operators and
functions around the lazy call) -/
theorem cut_invisible (env : Env F) (refs : List RRef) (names : List String) (full : List RRef) (e : Expr F)
    (h : Guarded env refs names full e) : evalExpr env (cutExpr refs names full e) = evalExpr env e :=
  guarded_eval env refs names full e h

/-- **any ordinary value that is reported is the one of the original formula**: an unmarked
formula cell whose cuts all lie in branches not selected on the reported values holds the value of
its *original* formula on those values — a cycle that closes only through such branches resolves
to a solution of the workbook's own equations -/
theorem resolved_value_is_original (b : Book F) (cuts : List Cut) (marks : List (Nat × Nat × Nat)) (nm : List String)
    (rm : List RRef) (n s r c : Nat) (e : Expr F) (hm : (s, r, c) ∉ marks) (ho : lookupOverride b.overrides s r c = none)
    (hs : findSpill b.cells s r c = none) (hc : findCell b.cells s r c = some (.formula e))
    (hg : Guarded (mkEnv (value (solved b cuts marks nm rm) n) b.names) (refsAt cuts s r c) (namesAt cuts s r c ++ nm) rm e) :
    value (solved b cuts marks nm rm) (n + 1) s r c =
      formulaValue (mkEnv (value (solved b cuts marks nm rm) n) b.names) 1 1 0 0 e :=
  solved_satisfies_original b cuts marks nm rm n s r c e hm ho hs hc hg

/-! ### non-vacuity: A1 = IF(C1, B1, 7), B1 = A1 + 1, C1 = FALSE, the back edge A1 → B1 cut -/
section Example
open XL.C02

def exBook : Book Int :=
  { cells := [⟨0, 1, 1, .formula (.call "IF" [.ref ⟨0, 1, 1, 3, 3⟩, .ref ⟨0, 1, 1, 2, 2⟩, .lit (.num 7)])⟩,
              ⟨0, 1, 2, .formula (.bin (.arith .add) (.ref ⟨0, 1, 1, 1, 1⟩) (.lit (.num 1)))⟩,
              ⟨0, 1, 3, .const (.bool false)⟩],
    names := [], overrides := [] }

def exCuts : List Cut := [⟨0, 1, 1, [⟨0, 1, 1, 2, 2⟩], []⟩]

/-- the cycle A1 ↔ B1 closes only through the unselected branch and resolves: A1 = 7, B1 = 8 -/
example : value (solved exBook exCuts []) 4 0 1 1 = .num 7 ∧ value (solved exBook exCuts []) 4 0 1 2 = .num 8 := by
  decide +kernel

/-- with C1 = TRUE the branch is selected: A1 and B1 are `#CIRC!` -/
example : value (solved { exBook with overrides := [((0, 1, 3), .bool true)] } exCuts []) 4 0 1 1 = .err .circ ∧
    value (solved { exBook with overrides := [((0, 1, 3), .bool true)] } exCuts []) 4 0 1 2 = .err .circ := by
  decide +kernel

/-- the hypothesis `Guarded` of `resolved_value_is_original` holds for A1 of this workbook -/
example (n : Nat) : Guarded (mkEnv (value (solved exBook exCuts []) (n + 1)) exBook.names) (refsAt exCuts 0 1 1)
    (namesAt exCuts 0 1 1 ++ []) []
    (.call "IF" [.ref ⟨0, 1, 1, 3, 3⟩, .ref ⟨0, 1, 1, 2, 2⟩, .lit (.num 7)] : Expr Int) := by
  refine Guarded.ifThen _ _ _ (.arr [[.bool false]]) (.bool false) (Guarded.clean _ ?_) (Guarded.clean _ ?_) (Single.cell 0 1 2) ?_ ?_ ?_
  · simp [cutExpr, refsAt, exCuts]
  · simp [cutExpr]
  · simp [evalExpr, readRange_cell, mkEnv, value, solved, exBook, lookupOverride, findSpill, findCell, applyCuts, cutContent]
  · rfl
  · intro a a' b; simp [ifElem, truthy]

end Example
end XL.C10
