import XL.Proofs.Look
import XL.Props.C02
/-!
# C19 — lookup and criteria functions agree with their search definitions

`XL.Model.Look` follows `xmatch`, `_index`, `xlookup`, `args_parser_hlookup` and `_xfilter` step by
step (early exits included); the check compares it with the implementation on every generated call and
both with brute-force definitions.  The theorems below say what the scans compute:

* approximate match on strictly ascending keys = position of the **last key not greater** than the
  value (`match_asc`, `asc_positions`), on strictly descending keys = position of the last key not
  smaller (`match_desc`); `#N/A` when there is none;
* exact match = position of the **first** key that is equal / matches the pattern (`match_exact`);
* `LOOKUP` / `VLOOKUP` / `HLOOKUP` are the result vector indexed by that position
  (`lookup_is_index_of_match`, by definition of the model — the tie to the code is the correspondence);
* the criteria functions count / add / average exactly the elements that satisfy the criterion
  (`countif_is_filter`, `sumif_selected`), the criterion being compared within the element's type
  (`sat_same_type`).

The order facts `KeyLaws` are hypotheses: they hold for finite doubles, strings and logicals; the
instance for `Int` shows they are satisfiable.
-/
namespace XL.C19
open XL

variable {α : Type}

/-- **approximate match, ascending keys** -/
theorem match_asc (lt le eq : α → α → Bool) (h : KeyLaws lt le eq) (val : α) (xs : List α)
    (hs : xs.Pairwise (fun a b => lt a b = true)) :
    scanAsc le eq val (indexed xs) none = if cntLe le val xs = 0 then none else some (cntLe le val xs) :=
  scanAsc_sorted_from_one lt le eq h val xs hs

/-- the keys `≤ val` are exactly those before that position -/
theorem asc_positions (lt le eq : α → α → Bool) (h : KeyLaws lt le eq) (val : α) (xs : List α)
    (hs : xs.Pairwise (fun a b => lt a b = true)) :
    (∀ x ∈ xs.take (cntLe le val xs), le x val = true) ∧ (∀ x ∈ xs.drop (cntLe le val xs), le x val = false) :=
  cntLe_spec lt le eq h val xs hs

/-- **approximate match, descending keys** -/
theorem match_desc (lt le eq : α → α → Bool) (h : KeyLaws lt le eq) (val : α) (xs : List α)
    (hs : xs.Pairwise (fun a b => lt b a = true)) :
    scanDesc lt eq val (indexed xs) none = if cntGe lt val xs = 0 then none else some (cntGe lt val xs) := by
  have := scanDesc_sorted lt le eq h val xs 1 none hs
  simp only [indexed, this]
  split
  · rfl
  · simp only [Option.some.injEq]; omega

/-- **exact match**: the first key that passes the test (equality within the type, or the wildcard
pattern), whatever the order of the keys -/
theorem match_exact (test : α → Bool) (xs : List α) :
    scanFirst test (indexed xs) =
      if xs.all (fun x => !test x) then none else some (1 + (xs.takeWhile fun x => !test x).length) :=
  scanFirst_spec test xs 1

/-- wildcards: `*` alone matches everything, a pattern without wildcards only itself, `?` exactly one
character, `*` nothing or one more character -/
theorem wildcard_rules (p : List Pat) (x : Char) (s q : List Char) :
    wmatch [.any] s = true ∧ wmatch (q.map Pat.lit) s = (q == s) ∧
    wmatch (.one :: p) (x :: s) = wmatch p s ∧ wmatch (.one :: p) [] = false ∧
    wmatch (.any :: p) (x :: s) = (wmatch p (x :: s) || wmatch (.any :: p) s) :=
  ⟨wmatch_star s, wmatch_literal q s, wmatch_one p x s, wmatch_one_nil p, wmatch_any p x s⟩

variable {F : Type} [Num F]

/-- **LOOKUP is INDEX of MATCH** on the key vector -/
theorem lookup_is_index_of_match (mode : Int) (val : Val F) (keys results : List (Val F)) (hv : ∀ e, val ≠ .err e) :
    xlookup mode val keys results =
      match matchPos mode val keys with
      | some p => results.getD (p - 1) (.err .na)
      | none => .err .na := by
  cases val with
  | err e => exact absurd rfl (hv e)
  | num x => rfl
  | text t => rfl
  | bool b => rfl
  | blank => rfl

/-- a column beyond the table is `#REF!` -/
theorem vlookup_beyond (t : Bool) (val : Val F) (table : Arr (Val F)) (col : Nat) (ap : Bool)
    (h : (if t then (List.range table.ncols).map (fun j => table.map fun row => row.getD j .blank) else table)[col - 1]? = none) :
    xvlookup t val table col ap = .err .ref := by
  simp only [xvlookup, h]

/-- **INDEX**: the element at the row and column, `#REF!` outside -/
theorem index_spec (a : Arr (Val F)) (row col : Nat) :
    (a[row - 1]? = none → xindex a row col = .err .ref) ∧
    (∀ r, a[row - 1]? = some r → r[col - 1]? = none → xindex a row col = .err .ref) ∧
    (∀ r v, a[row - 1]? = some r → r[col - 1]? = some v → v ≠ .blank → xindex a row col = v) := by
  refine ⟨?_, ?_, ?_⟩
  · intro h; simp [xindex, h]
  · intro r h1 h2; simp [xindex, h1, h2]
  · intro r v h1 h2 hv
    cases v <;> simp_all [xindex]

/-- **COUNTIF counts exactly the elements that satisfy the criterion** -/
theorem countif_is_filter (crit : Val F) (test : List (Val F)) :
    countIf crit test = .num (natToF (test.filter (sat (parseCrit crit))).length) := rfl

/-- SUMIF / AVERAGEIF work on exactly the elements of the second range whose partner satisfies it -/
theorem sumif_selected (k : Crit F) (t o : Val F) (test operate : List (Val F)) :
    selected k (t :: test) (o :: operate) = (if sat k t then [o] else []) ++ selected k test operate := by
  by_cases h : sat k t = true <;> simp [selected, h]

/-- **compared within its own type**: an element of another type than the operand never satisfies a
comparison criterion (numeric text counts as a number for a numeric operand) -/
theorem sat_same_type (op : COp) (c v : Val F) (hv : v ≠ .blank) (hc : ∀ x, c ≠ .num x) (h : typeId v ≠ typeId c) :
    sat (.cmp op c) v = false := by
  cases v <;> cases c <;> simp_all [sat, typeId, blankText, numView]

/-! ### non-vacuity -/
section Example

theorem intLaws : KeyLaws (fun a b : Int => decide (a < b)) (fun a b => decide (a ≤ b)) (fun a b => decide (a = b)) where
  asc_cut := by intro a b c h1 h2; simp at *; omega
  eq_cut := by intro a b c h1 h2; simp at *; omega
  desc_cut := by intro a b c h1 h2; simp at *; omega
  eq_desc := by intro a b c h1 h2; simp at *; omega

/-- MATCH(25, {10, 20, 30, 40}, 1) = 2 and the hypotheses of `match_asc` hold -/
example : scanAsc (fun a b : Int => decide (a ≤ b)) (fun a b => decide (a = b)) 25 (indexed [10, 20, 30, 40]) none = some 2 ∧
    ([10, 20, 30, 40] : List Int).Pairwise (fun a b => decide (a < b) = true) := by
  constructor
  · decide
  · decide

example : scanDesc (fun a b : Int => decide (a < b)) (fun a b => decide (a = b)) 25 (indexed [40, 30, 20, 10]) none = some 2 := by decide

open XL.C02 in
example : matchPos 1 (.num 25 : Val Int) [.num 10, .num 20, .num 30] = some 2 ∧
    matchPos 0 (.text "b*" : Val Int) [.text "a", .num 3, .text "Bcd"] = some 3 ∧
    matchPos (-1) (.num 25 : Val Int) [.num 30, .num 20] = some 1 := by decide +kernel

example : wmatch (parsePat "A?C*".toList) "ABCDE".toList = true ∧ wmatch (parsePat "A?".toList) "ABC".toList = false ∧
    wmatch (parsePat "A~*".toList) "A*".toList = true := by decide +kernel

end Example
end XL.C19
