import XL.Proofs.Look
import XL.Props.C02
/-!
# C19 — lookup and criteria functions agree with their search definitions

`XL.Model.Look` follows `xmatch`, `_index`, `xlookup`, `args_parser_hlookup` and `_xfilter` step by
step (early exits included); the check compares it with the implementation on every generated call and
both with brute-force definitions.  The theorems below say what the scans compute:

* approximate match on strictly ascending keys = position of the **last key not greater** than the
  value (`match_asc`, `asc_positions`), on strictly descending keys = position of the last key not
  smaller (`match_desc`); `#N/A` when there is none;
* exact match = position of the **first** key that is equal / matches the pattern (`match_exact`);
* `LOOKUP` / `VLOOKUP` / `HLOOKUP` are the result vector indexed by that position
  (`lookup_is_index_of_match`, by definition of the model — the tie to the code is the correspondence);
* the criteria functions count / add / average exactly the elements that satisfy the criterion
  (`countif_is_filter`, `sumif_selected`), the criterion being compared within the element's type
  (`sat_same_type`).

The order facts `KeyLaws` are hypotheses: they hold for finite doubles, strings and logicals; the
instance for `Int` shows they are satisfiable.
-/
namespace XL.C19
open XL

variable {α : Type}

/-- **approximate match, ascending keys** -/
theorem match_asc (lt le eq : α → α → Bool) (h : KeyLaws lt le eq) (val : α) (xs : List α)
    (hs : xs.Pairwise (fun a b => lt a b = true)) :
    scanAsc le eq val (indexed xs) none = if cntLe le val xs = 0 then none else some (cntLe le val xs) :=
  scanAsc_sorted_from_one lt le eq h val xs hs

/-- the keys `≤ val` are exactly those before that position -/
theorem asc_positions (lt le eq : α → α → Bool) (h : KeyLaws lt le eq) (val : α) (xs : List α)
    (hs : xs.Pairwise (fun a b => lt a b = true)) :
    (∀ x ∈ xs.take (cntLe le val xs), le x val = true) ∧ (∀ x ∈ xs.drop (cntLe le val xs), le x val = false) :=
  cntLe_spec lt le eq h val xs hs

/-- **approximate match, descending keys** -/
theorem match_desc (lt le eq : α → α → Bool) (h : KeyLaws lt le eq) (val : α) (xs : List α)
    (hs : xs.Pairwise (fun a b => lt b a = true)) :
    scanDesc lt eq val (indexed xs) none = if cntGe lt val xs = 0 then none else some (cntGe lt val xs) := by
  have := scanDesc_sorted lt le eq h val xs 1 none hs
  simp only [indexed, this]
  split
  · rfl
  · simp only [Option.some.injEq]; omega

/-- **exact match**: the first key that passes the test (equality within the type, or the wildcard
pattern), whatever the order of the keys -/
theorem match_exact (test : α → Bool) (xs : List α) :
    scanFirst test (indexed xs) =
      if xs.all (fun x => !test x) then none else some (1 + (xs.takeWhile fun x => !test x).length) :=
  scanFirst_spec test xs 1

/-- wildcards: `*` alone matches everything, a pattern without wildcards only itself, `?` exactly one
character, `*` nothing or one more character -/
theorem wildcard_rules (p : List Pat) (x : Char) (s q : List Char) :
    wmatch [.any] s = true ∧ wmatch (q.map Pat.lit) s = (q == s) ∧
    wmatch (.one :: p) (x :: s) = wmatch p s ∧ wmatch (.one :: p) [] = false ∧
    wmatch (.any :: p) (x :: s) = (wmatch p (x :: s) || wmatch (.any :: p) s) :=
  ⟨wmatch_star s, wmatch_literal q s, wmatch_one p x s, wmatch_one_nil p, wmatch_any p x s⟩

variable {F : Type} [Num F]

/-- **LOOKUP is INDEX of MATCH** on the key vector -/
theorem lookup_is_index_of_match (mode : Int) (val : Val F) (keys results : List (Val F)) (hv : ∀ e, val ≠ .err e) :
    xlookup mode val keys results =
      match matchPos mode val keys with
      | some p => results.getD (p - 1) (.err .na)
      | none => .err .na := by
  cases val with
  | err e => exact absurd rfl (hv e)
  | num x => rfl
  | text t => rfl
  | bool b => rfl
  | blank => rfl

/-- a column beyond the table is `#REF!` -/
theorem vlookup_beyond (t : Bool) (val : Val F) (table : Arr (Val F)) (col : Nat) (ap : Bool)
    (h : (if t then (List.range table.ncols).map (fun j => table.map fun row => row.getD j .blank) else table)[col - 1]? = none) :
    xvlookup t val table col ap = .err .ref := by
  simp only [xvlookup, h]

/-- **INDEX**: the element at the row and column, `#REF!` outside -/
theorem index_spec (a : Arr (Val F)) (row col : Nat) :
    (a[row - 1]? = none → xindex a row col = .err .ref) ∧
    (∀ r, a[row - 1]? = some r → r[col - 1]? = none → xindex a row col = .err .ref) ∧
    (∀ r v, a[row - 1]? = some r → r[col - 1]? = some v → v ≠ .blank → xindex a row col = v) := by
  refine ⟨?_, ?_, ?_⟩
  · intro h; simp [xindex, h]
  · intro r h1 h2; simp [xindex, h1, h2]
  · intro r v h1 h2 hv
    cases v <;> simp_all [xindex]

/-- **COUNTIF counts exactly the elements that satisfy the criterion** -/
theorem countif_is_filter (crit : Val F) (test : List (Val F)) :
    countIf crit test = .num (natToF (test.filter (sat (parseCrit crit))).length) := rfl

/-- SUMIF / AVERAGEIF work on exactly the elements of the second range whose partner satisfies it -/
theorem sumif_selected (k : Crit F) (t o : Val F) (test operate : List (Val F)) :
    selected k (t :: test) (o :: operate) = (if sat k t then [o] else []) ++ selected k test operate := by
  by_cases h : sat k t = true <;> simp [selected, h]

/-- **compared within its own type**: an element of another type than the operand never satisfies a
comparison criterion (numeric text counts as a number for a numeric operand) -/
theorem sat_same_type (op : COp) (c v : Val F) (hv : v ≠ .blank) (hc : ∀ x, c ≠ .num x) (h : typeId v ≠ typeId c) :
    sat (.cmp op c) v = false := by
  cases v <;> cases c <;> simp_all [sat, typeId, blankText, numView]


/-! ### exact match on the whole key vector, criteria in closed form -/

/-- the value MATCH searches for: a blank reads `0`, text is upper-cased -/
def matchKey (val : Val F) : Val F := upperVal (match val with | .blank => .num Num.zero | x => x)

/-- the test of an exact match: the wildcard pattern for text with wildcards, equality otherwise -/
def exactTest (v : Val F) (x : Val F) : Bool :=
  match v with
  | .text s =>
    if hasWild s.toList then (match x with | .text t => wmatch (parsePat s.toList) t.toList | _ => false)
    else eqLook x v
  | _ => eqLook x v

/-- a key takes part when it has the type of the value and passes the test -/
def exactHit (v k : Val F) : Bool := decide (typeId (upperVal k) = typeId v) && exactTest v (upperVal k)

theorem matchPos_exact (val : Val F) (keys : List (Val F)) :
    matchPos 0 val keys =
      if keys.all (fun k => !exactHit (matchKey val) k) then none
      else some (1 + (keys.takeWhile fun k => !exactHit (matchKey val) k).length) := by
  have key : ∀ v : Val F,
      scanFirst (exactTest v) ((indexed (keys.map upperVal)).filter fun p => decide (typeId p.2 = typeId v)) =
      if keys.all (fun k => !exactHit v k) then none
      else some (1 + (keys.takeWhile fun k => !exactHit v k).length) := by
    intro v
    have := scanFirst_filter_spec (exactTest v) (fun x => decide (typeId x = typeId v)) (keys.map upperVal) 1
    simp only [indexed, this, List.all_map, List.takeWhile_map, List.length_map]
    rfl
  rw [← key]
  unfold matchPos matchKey
  simp only [Int.lt_irrefl, if_false, gt_iff_lt]
  cases hv : upperVal (match val with | .blank => .num Num.zero | x => x) with
  | text s =>
    by_cases hw : hasWild s.toList = true
    · simp only [hw, if_true]; congr 1; funext x; cases x <;> simp [exactTest, hw]
    · have hw' : hasWild s.toList = false := by simpa using hw
      simp only [hw', Bool.false_eq_true, if_false]; congr 1; funext x; simp [exactTest, hw']
  | num x => simp only []; congr 1
  | bool b => simp only []; congr 1
  | err e => simp only []; congr 1
  | blank => simp only []; congr 1

/-- **first equal element**: the position returned by an exact match holds a key of the value's type
that passes the test, and no earlier position does -/
theorem matchPos_exact_first (val : Val F) (keys : List (Val F)) (p : Nat) (h : matchPos 0 val keys = some p) :
    1 ≤ p ∧ (∃ k, keys[p - 1]? = some k ∧ exactHit (matchKey val) k = true) ∧
    ∀ i k, i < p - 1 → keys[i]? = some k → exactHit (matchKey val) k = false := by
  rw [matchPos_exact] at h
  split at h
  · cases h
  · rename_i hall
    have hall' : keys.all (fun k => !exactHit (matchKey val) k) = false := by simpa using hall
    obtain ⟨⟨k, hk1, hk2⟩, hbefore⟩ := takeWhile_first (fun k => !exactHit (matchKey val) k) keys hall'
    simp only [Option.some.injEq] at h
    subst h
    refine ⟨by omega, ⟨k, ?_, by simpa using hk2⟩, ?_⟩
    · simpa using hk1
    · intro i k' hi hk'
      have := hbefore i k' (by omega) hk'
      simpa using this

/-- no position at all exactly when no key of the value's type passes the test (`#N/A`) -/
theorem matchPos_exact_none (val : Val F) (keys : List (Val F)) :
    matchPos 0 val keys = none ↔ ∀ k ∈ keys, exactHit (matchKey val) k = false := by
  rw [matchPos_exact]
  split
  · rename_i hall
    simp only [true_iff]
    intro k hk
    have := (List.all_eq_true.mp hall) k hk
    simpa using this
  · rename_i hall
    simp only [reduceCtorEq, false_iff]
    intro hno
    apply hall
    rw [List.all_eq_true]
    intro k hk
    simp [hno k hk]

/-- the selection of SUMIF / AVERAGEIF in closed form: the partners of the elements that satisfy the criterion, in order -/
theorem selected_eq_filter (k : Crit F) (test operate : List (Val F)) :
    selected k test operate = ((test.zip operate).filter fun p => sat k p.1).map Prod.snd := by
  unfold selected
  induction test.zip operate with
  | nil => rfl
  | cons p l ih =>
    obtain ⟨t, o⟩ := p
    by_cases h : sat k t = true <;> simp [h, ih]

theorem selected_self (k : Crit F) (test : List (Val F)) :
    selected k test test = test.filter (sat k) := by
  induction test with
  | nil => rfl
  | cons t l ih =>
    have := ih
    unfold selected at *
    by_cases h : sat k t = true <;> simp [h, this]

theorem selected_none (k : Crit F) (test operate : List (Val F)) (h : ∀ t ∈ test, sat k t = false) :
    selected k test operate = [] := by
  rw [selected_eq_filter]
  simp only [List.map_eq_nil_iff, List.filter_eq_nil_iff]
  intro p hp
  have := h p.1 (List.of_mem_zip hp).1
  simp [this]

theorem averageIf_none (crit : Val F) (test operate : List (Val F))
    (h : ∀ t ∈ test, sat (parseCrit crit) t = false) : averageIf crit test operate = .err .div0 := by
  simp [averageIf, selected_none _ _ _ h, firstErr]

/-- COUNTIF is the length of the selection of the tested range itself -/
theorem countif_eq_selected_length (crit : Val F) (test : List (Val F)) :
    countIf crit test = .num (natToF (selected (parseCrit crit) test test).length) := by
  rw [selected_self]; rfl

/-! ### non-vacuity -/
section Example

theorem intLaws : KeyLaws (fun a b : Int => decide (a < b)) (fun a b => decide (a ≤ b)) (fun a b => decide (a = b)) where
  asc_cut := by intro a b c h1 h2; simp at *; omega
  eq_cut := by intro a b c h1 h2; simp at *; omega
  desc_cut := by intro a b c h1 h2; simp at *; omega
  eq_desc := by intro a b c h1 h2; simp at *; omega

/-- MATCH(25, {10, 20, 30, 40}, 1) = 2 and the hypotheses of `match_asc` hold -/
example : scanAsc (fun a b : Int => decide (a ≤ b)) (fun a b => decide (a = b)) 25 (indexed [10, 20, 30, 40]) none = some 2 ∧
    ([10, 20, 30, 40] : List Int).Pairwise (fun a b => decide (a < b) = true) := by
  constructor
  · decide
  · decide

example : scanDesc (fun a b : Int => decide (a < b)) (fun a b => decide (a = b)) 25 (indexed [40, 30, 20, 10]) none = some 2 := by decide

open XL.C02 in
example : matchPos 1 (.num 25 : Val Int) [.num 10, .num 20, .num 30] = some 2 ∧
    matchPos 0 (.text "b*" : Val Int) [.text "a", .num 3, .text "Bcd"] = some 3 ∧
    matchPos (-1) (.num 25 : Val Int) [.num 30, .num 20] = some 1 := by decide +kernel

open XL.C02 in
example : matchPos 0 (.num 3 : Val Int) [.text "3", .num 3, .num 3] = some 2 ∧
    exactHit (matchKey (.num 3 : Val Int)) (.num 3) = true ∧ exactHit (matchKey (.num 3 : Val Int)) (.text "3") = false ∧
    selected (parseCrit (.text ">1" : Val Int)) [.num 1, .num 2, .num 3] [.num 10, .num 20, .num 30] = [.num 20, .num 30] ∧
    averageIf (.text ">5" : Val Int) [.num 1, .num 2] [.num 1, .num 2] = .err .div0 := by decide +kernel

example : wmatch (parsePat "A?C*".toList) "ABCDE".toList = true ∧ wmatch (parsePat "A?".toList) "ABC".toList = false ∧
    wmatch (parsePat "A~*".toList) "A*".toList = true := by decide +kernel

end Example
end XL.C19
