import XL.Model.Arr
import XL.Model.Val
/-!
# C16 — writing a solution reproduces it cell for cell

`ExcelModel.write` places a solved node with rectangle `(r1, c1)`–`(r1+R-1, c1+C-1)` and value
matrix `v` by pairing `np.ravel(sheet[ref])` with `np.ravel(v)`: both enumerations are row-major.
`placement` is that pairing; `conv` the value conversion (`EMPTY → None`, `'' → None` after the
`fix:` commit, error → its text, everything else unchanged).

Lean cannot reach openpyxl's serialisation, the file system or the case-insensitive lookup of
books and sheets: those are exercised on the implementation (write to disk, read back, `compare`).
-/
namespace XL.C16
open XL

/-- the cells of a rectangle in the order `np.ravel(sheet['A1:B2'])` yields them -/
def cellsOf (r1 c1 R C : Nat) : List (Nat × Nat) :=
  (List.range R).flatMap fun i => (List.range C).map fun j => (r1 + i, c1 + j)

/-- `zip(np.ravel(sheet[ref]), np.ravel(value))` -/
def placement {α} (r1 c1 R C : Nat) (v : Arr α) : List ((Nat × Nat) × α) :=
  (cellsOf r1 c1 R C).zip v.flatten

theorem zip_append_eq {α β} (a b : List α) (c d : List β) (h : a.length = c.length) :
    (a ++ b).zip (c ++ d) = a.zip c ++ b.zip d := by
  induction a generalizing c with
  | nil => cases c <;> simp_all
  | cons x xs ih =>
    cases c with
    | nil => simp at h
    | cons y ys => simp at h; simp [ih ys h]

theorem zip_rows {α} (r1 c1 C : Nat) (f : Nat → Nat → α) : ∀ (R : Nat),
    ((List.range R).flatMap fun i => (List.range C).map fun j => (r1 + i, c1 + j)).zip
      ((List.range R).map fun i => (List.range C).map fun j => f i j).flatten
    = (List.range R).flatMap fun i => (List.range C).map fun j => ((r1 + i, c1 + j), f i j) := by
  intro R
  induction R with
  | zero => simp
  | succ R ih =>
    simp only [List.range_succ, List.flatMap_append, List.map_append, List.flatten_append, List.flatMap_cons,
      List.flatMap_nil, List.append_nil, List.map_cons, List.map_nil, List.flatten_cons, List.flatten_nil]
    rw [zip_append_eq]
    · rw [ih]
      congr 1
      simp [List.zip_map']
    · simp only [List.length_flatMap, List.length_flatten, List.map_map, List.length_map, List.length_range]
      congr 1
      apply List.map_congr_left
      intro i _
      simp

/-- **every solved cell — each cell of a multi-cell range included — receives the solved value at its
own coordinates, and no other cell is touched**: for a value of the rectangle's shape, the pairing is
exactly `{(r1+i, c1+j) ↦ v[i][j]}` -/
theorem write_placement {α} (r1 c1 R C : Nat) (f : Nat → Nat → α) :
    placement r1 c1 R C (tabulate R C f) =
      (List.range R).flatMap fun i => (List.range C).map fun j => ((r1 + i, c1 + j), f i j) := by
  unfold placement cellsOf tabulate
  exact zip_rows r1 c1 C f R

theorem written_cell {α} (r1 c1 R C : Nat) (f : Nat → Nat → α) (i j : Nat) (hi : i < R) (hj : j < C) :
    ((r1 + i, c1 + j), f i j) ∈ placement r1 c1 R C (tabulate R C f) := by
  rw [write_placement]
  simp only [List.mem_flatMap, List.mem_map, List.mem_range]
  exact ⟨i, hi, j, hj, rfl⟩

theorem untouched_outside {α} (r1 c1 R C : Nat) (f : Nat → Nat → α) (p : Nat × Nat) (x : α)
    (h : (p, x) ∈ placement r1 c1 R C (tabulate R C f)) :
    r1 ≤ p.1 ∧ p.1 < r1 + R ∧ c1 ≤ p.2 ∧ p.2 < c1 + C := by
  rw [write_placement] at h
  simp only [List.mem_flatMap, List.mem_map, List.mem_range] at h
  obtain ⟨i, hi, j, hj, he⟩ := h
  cases he
  simp; omega

/-- value written into a cell (`none` = the cell is left empty) -/
def conv {F} : Val F → Option (Val F)
  | .blank => none
  | .text s => if s = "" then none else some (.text s)
  | .err e => some (.text e.toString)
  | v => some v

theorem conv_spec {F} (x : F) (b : Bool) (e : Err) (s : String) (hs : s ≠ "") :
    conv (.blank : Val F) = none ∧ conv (.text "" : Val F) = none ∧ conv (.err e : Val F) = some (.text e.toString) ∧
    conv (.num x : Val F) = some (.num x) ∧ conv (.bool b : Val F) = some (.bool b) ∧ conv (.text s : Val F) = some (.text s) := by
  simp [conv, hs]

example : placement 2 3 2 2 (tabulate 2 2 fun i j => 10 * i + j) =
    [((2, 3), 0), ((2, 4), 1), ((3, 3), 10), ((3, 4), 11)] := by decide

/-! ### several nodes written one after the other -/

/-- a sheet as a function from coordinates to the stored content; writing the placements of all
solved nodes one after the other (`for k, r in solution: for c, v in zip(...): c.value = v`) -/
def writeCells {β} (sheet : Nat × Nat → Option β) (ps : List ((Nat × Nat) × Option β)) : Nat × Nat → Option β :=
  ps.foldl (fun s pv => fun q => if q = pv.1 then pv.2 else s q) sheet

/-- **cells outside the solution are untouched**, however many nodes are written -/
theorem writeCells_untouched {β} (ps : List ((Nat × Nat) × Option β)) :
    ∀ (sheet : Nat × Nat → Option β) (q : Nat × Nat), (∀ a ∈ ps, a.1 ≠ q) → writeCells sheet ps q = sheet q := by
  induction ps with
  | nil => intro sheet q _; rfl
  | cons pv ps ih =>
    intro sheet q h
    have h1 : pv.1 ≠ q := h pv (by simp)
    have := ih (fun q => if q = pv.1 then pv.2 else sheet q) q (fun a ha => h a (by simp [ha]))
    simp only [writeCells, List.foldl_cons] at this ⊢
    rw [this]
    simp [Ne.symm h1]

/-- **every solved cell holds its solved value**: when the nodes of a solution overlap (a cell node and
a range node over it) and agree on the shared cells, the order of writing does not matter -/
theorem writeCells_solved {β} (ps : List ((Nat × Nat) × Option β)) (q : Nat × Nat) (v : Option β) :
    ∀ (sheet : Nat × Nat → Option β), (∀ a ∈ ps, a.1 = q → a.2 = v) → ((q, v) ∈ ps ∨ sheet q = v) →
      writeCells sheet ps q = v := by
  induction ps with
  | nil => intro sheet _ h; simpa [writeCells] using h
  | cons pv ps ih =>
    intro sheet hc h
    simp only [writeCells, List.foldl_cons]
    apply ih (fun q => if q = pv.1 then pv.2 else sheet q) (fun a ha => hc a (by simp [ha]))
    by_cases hp : pv.1 = q
    · right; simp [hp, hc pv (by simp) hp]
    · rcases h with h | h
      · rcases List.mem_cons.mp h with h | h
        · exact absurd (by rw [← h]) hp
        · exact Or.inl h
      · right; simp [Ne.symm hp, h]

/-- two nodes over the same cell with the same value, and a cell nobody writes -/
example : writeCells (fun _ => some 7) [((1, 1), some 3), ((1, 2), none), ((1, 1), some 3)] (1, 1) = some 3 ∧
    writeCells (fun _ => some 7) [((1, 1), some 3), ((1, 2), none), ((1, 1), some 3)] (1, 2) = none ∧
    writeCells (fun _ => some 7) [((1, 1), some 3), ((1, 2), none), ((1, 1), some 3)] (5, 5) = some 7 := by decide
end XL.C16
