import XL.Proofs.Book
import XL.Props.C02
/-!
# C03 — a calculated workbook is a consistent fixed point, whatever the order

`Book F` is the model of a loaded workbook (constants, formulas, array formulas with their spill
rectangle, defined names, supplied inputs); `value b fuel` evaluates a cell by recursion on its
references; `Acyclic b rank` is the witness that the workbook has no reference cycle.

What has no counterpart in a pure model and is therefore decided on the implementation only:
independence from `PYTHONHASHSEED`, and the equivalence of the file and dictionary loading paths
(both are exercised by the check with the values compared against this model).
-/
namespace XL.C03
open XL
variable {F : Type} [Num F]

/-- **every cell satisfies its own equation**: a formula cell holds its formula applied to the
current values of the cells it refers to (through single cells, ranges, other sheets, defined names),
a cell under an array formula the corresponding element of the fitted result, a constant cell its
stored value, an unpopulated cell is blank -/
theorem value_fixpoint (b : Book F) (rank : Nat → Nat → Nat → Nat) (h : Acyclic b rank) (s r c : Nat) :
    val b rank s r c = Equation b (val b rank) s r c := val_fixpoint b rank h s r c

/-- **the fixed point is unique**: "consistent" pins the result -/
theorem value_unique (b : Book F) (rank : Nat → Nat → Nat → Nat) (h : Acyclic b rank) (σ : Nat → Nat → Nat → Val F)
    (hσ : ∀ s r c, σ s r c = Equation b σ s r c) (s r c : Nat) : σ s r c = val b rank s r c :=
  val_unique b rank h σ hσ (rank s r c + 1) s r c (by omega)

/-- the evaluation depth does not matter once it exceeds the longest dependency chain -/
theorem value_fuel_irrelevant (b : Book F) (rank : Nat → Nat → Nat → Nat) (h : Acyclic b rank) (n k s r c : Nat)
    (hn : rank s r c < n) (hk : rank s r c < k) : value b n s r c = value b k s r c :=
  value_fuel b rank h n s r c k hn hk

/-- **whatever the order in which cells were added** (any permutation of an unambiguous cell list) -/
theorem value_order_independent (b b' : Book F) (hn : b.names = b'.names) (ho : b.overrides = b'.overrides)
    (hp : b.cells.Perm b'.cells) (hu : Unambiguous b.cells) (n s r c : Nat) :
    value b n s r c = value b' n s r c := value_perm b b' hn ho hp hu n s r c

/-- a formula only reads the cells of its references and the names it mentions -/
theorem formula_reads_only_its_references (env env' : Env F) (e : Expr F)
    (h : AgreeOn env env' (refsOf e) (namesOf e)) : evalExpr env e = evalExpr env' e := evalExpr_congr env env' e h

/-- unpopulated cells are seen as blank; constants hold their value -/
theorem blank_and_constant (b : Book F) (n s r c : Nat) (v : Val F)
    (ho : lookupOverride b.overrides s r c = none) (hs : findSpill b.cells s r c = none) :
    (findCell b.cells s r c = none → value b (n + 1) s r c = .blank) ∧
    (findCell b.cells s r c = some (.const v) → value b (n + 1) s r c = v) := by
  constructor <;> intro hc <;> simp [value, ho, hs, hc]

end XL.C03

namespace XL.C03
open XL

/-! ### non-vacuity: a concrete acyclic workbook (over `Int`, the lawful instance of `XL.Props.C02`) -/
section Example
open XL.C02

/-- B1 = SUM(A1:A2) + 1 on sheet 0 (A1, A2 unpopulated) and C1 = 5 -/
def exBook : Book Int :=
  { cells := [⟨0, 1, 2, .formula (.bin (.arith .add) (.call "SUM" [.ref ⟨0, 1, 2, 1, 1⟩]) (.lit (.num 1)))⟩],
    names := [], overrides := [] }

def exRank (s r c : Nat) : Nat := if s = 0 ∧ r = 1 ∧ c = 2 then 1 else 0

example : value exBook 3 0 1 2 = .num 1 := by decide +kernel

theorem exBook_acyclic : Acyclic exBook exRank := by
  intro s r c s' r' c' ⟨e, he, q, hq, hh⟩
  by_cases h : s = 0 ∧ r = 1 ∧ c = 2
  · obtain ⟨rfl, rfl, rfl⟩ := h
    simp [formulaAt, exBook, lookupOverride, findSpill, findCell] at he
    subst he
    simp [depsOf, refsOf, refsOfArgs, namesOf, namesOfArgs] at hq
    subst hq
    simp only [RRef.has] at hh
    have : ¬ (s' = 0 ∧ r' = 1 ∧ c' = 2) := by omega
    simp [exRank, this]
  · exfalso
    have h' : ¬ (0 = s ∧ 1 = r ∧ 2 = c) := by omega
    simp [formulaAt, exBook, lookupOverride, findSpill, findCell, h'] at he

/-- the hypotheses of the theorems above are met by a concrete workbook -/
example : val exBook exRank 0 1 2 = Equation exBook (val exBook exRank) 0 1 2 :=
  value_fixpoint exBook exRank exBook_acyclic 0 1 2

end Example
end XL.C03
