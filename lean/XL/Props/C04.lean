import XL.Proofs.Ref
import XL.Generated.Tables
/-!
# C04 — every spelling of a reference denotes the same node; distinct ones differ

The canonical identifier of a rectangle is `buildId (refName maxrow maxcol r) sheetId`
(`_build_id(_build_ref(...), sheet_id)`); `readBack` is `Ranges.get_range` on a canonical
A1-style name.  Spellings (`$`, case, R1C1, relative offsets, `X:X`) are resolved to
numbers first — that step is regular-expression matching in the code and is tied by the
correspondence check; the theorems below start from the numbers.

`Nameable maxrow maxcol r` : `r` is a plain in-grid rectangle that does not touch the last
row or column, or a whole-column / whole-row area.  The pinned code drops the last column
letter and the last row number unconditionally, so names of rectangles that touch the last
row/column without being whole rows/columns collide (`boundary_counterexample`, replayed on the
implementation as a known finding).
-/
namespace XL.C04
open XL

/-- column number → letters → number, for **every** natural number -/
theorem col_number_roundtrip (n : Nat) : colIndex (colLetters n) = n := colIndex_colLetters n

/-- letters → number → letters, for **every** string of upper-case letters -/
theorem col_letters_roundtrip (s : List Char) (h : ∀ c ∈ s, isUpperAZ c = true) :
    colLetters (colIndex s) = s := colLetters_colIndex s h

/-- distinct column numbers have distinct letters -/
theorem col_letters_injective (a b : Nat) (h : colLetters a = colLetters b) : a = b := colLetters_inj a b h

/-- the generated grid limits are the ones the theorems are instantiated with -/
theorem grid_limits : Generated.maxcol = 16384 ∧ Generated.maxrow = 1048576 := by decide

/-- reading a canonical name back yields the rectangle it was built from -/
theorem readBack_name_partial (r : Rect) (h : Nameable Generated.maxrow Generated.maxcol r) :
    readBack Generated.maxrow Generated.maxcol (refName Generated.maxrow Generated.maxcol r)
      = some (r.r1, r.r2, r.c1, r.c2) := readBack_refName _ _ r h

/-- different rectangles of one sheet never share a name -/
theorem name_injective_partial (a b : Rect)
    (ha : Nameable Generated.maxrow Generated.maxcol a) (hb : Nameable Generated.maxrow Generated.maxcol b)
    (hs : a.sheet = b.sheet)
    (h : refName Generated.maxrow Generated.maxcol a = refName Generated.maxrow Generated.maxcol b) : a = b :=
  refName_inj _ _ a b ha hb hs h

/-- full identifiers (sheet id `!` reference) of different sheets or rectangles differ, for
sheet ids that do not contain `!` -/
theorem id_injective_partial (a b : Rect) (s s' : List Char)
    (ha : Nameable Generated.maxrow Generated.maxcol a) (hb : Nameable Generated.maxrow Generated.maxcol b)
    (hs : '!' ∉ s) (hs' : '!' ∉ s') (hsh : a.sheet = b.sheet)
    (h : buildId (refName Generated.maxrow Generated.maxcol a) s
       = buildId (refName Generated.maxrow Generated.maxcol b) s') : a = b ∧ s = s' := by
  obtain ⟨h1, h2⟩ := buildId_inj _ _ s s' (refName_no_bang _ _ a) (refName_no_bang _ _ b) hs hs' h
  exact ⟨refName_inj _ _ a b ha hb hsh h1, h2⟩

/-- the redundant form `X:X` collapses: a one-cell rectangle is named like the cell -/
theorem single_cell_name (s r c : Nat) (hc : 1 ≤ c) (hc' : c < Generated.maxcol) (hr : 1 ≤ r) (hr' : r < Generated.maxrow) :
    refName Generated.maxrow Generated.maxcol ⟨s, r, r, c, c⟩ = colLetters c ++ rowChars r := by
  have e1 : celCol Generated.maxcol c = colLetters c := by simp [celCol]; omega
  have e3 : celRow Generated.maxrow r = rowChars r := by simp [celRow]; omega
  unfold refName
  simp only [e1, e3]
  simp [colLetters_ne_nil c hc, rowChars_ne_nil]

/-- the single-cell fast path and the general builder agree on every nameable cell -/
theorem fast_eq_general (s r c : Nat) (hc : 1 ≤ c) (hc' : c < Generated.maxcol) (hr : 1 ≤ r) (hr' : r < Generated.maxrow) :
    cellName Generated.maxrow Generated.maxcol r c = refName Generated.maxrow Generated.maxcol ⟨s, r, r, c, c⟩ := by
  rw [single_cell_name s r c hc hc' hr hr']
  have e1 : celCol Generated.maxcol c = colLetters c := by simp [celCol]; omega
  have e3 : celRow Generated.maxrow r = rowChars r := by simp [celRow]; omega
  simp [cellName, e1, e3]

/-- **counter-example on the pinned tree** (known finding `last-row-or-column-name`):
the whole last column and the whole last row are both named `:`; `XFD1` is named `1` by the
single-cell path and `1:1` by the general one; the last cell of the grid has the empty name. -/
theorem boundary_counterexample :
    refName Generated.maxrow Generated.maxcol ⟨0, 0, 1048576, 16384, 16384⟩ = [':'] ∧
    refName Generated.maxrow Generated.maxcol ⟨0, 1048576, 1048576, 0, 16384⟩ = [':'] ∧
    refName Generated.maxrow Generated.maxcol ⟨0, 1, 1, 16384, 16384⟩ = ['1', ':', '1'] ∧
    cellName Generated.maxrow Generated.maxcol 1 16384 = ['1'] ∧
    cellName Generated.maxrow Generated.maxcol 1048576 16384 = [] ∧
    refName Generated.maxrow Generated.maxcol ⟨0, 1, 1, 1, 16384⟩ = ['A', '1', ':', '1'] := by
  decide +kernel

/-! ### non-vacuity -/
example : Nameable Generated.maxrow Generated.maxcol ⟨0, 5, 7, 2, 3⟩ := by decide
example : Nameable Generated.maxrow Generated.maxcol ⟨0, 0, 1048576, 2, 3⟩ := by decide
example : Nameable Generated.maxrow Generated.maxcol ⟨0, 2, 3, 0, 16384⟩ := by decide
example : refName Generated.maxrow Generated.maxcol ⟨0, 5, 7, 2, 3⟩ = "B5:C7".toList := by decide +kernel
example : colLetters 16384 = "XFD".toList := by decide +kernel
example : colIndex "xfd".toList = 16384 := by decide +kernel

end XL.C04
