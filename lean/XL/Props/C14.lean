import XL.Proofs.Book
/-!
# C14 — unresolvable functions and references degrade locally to error values

In the model a fault is an ordinary value: an unimplemented function evaluates to `#NAME?`
(`evalExpr` falls through its function table exactly where `CellWrapper.__call__` catches
`NotImplementedError`), an undefined name to `#REF!`; a reference to a missing sheet or workbook is
a `#REF!` cell (`complete`).  Nothing aborts because evaluation is a total function.
-/
namespace XL.C14
open XL
variable {F : Type} [Num F]

/-- an unimplemented function raises `NotImplementedError`, whatever its arguments … -/
theorem unknown_function (env : Env F) (f : String) (args : List (Expr F)) (vs : List (Res F))
    (ha : evalArgs env args = .ok vs)
    (hf : f ∉ ["SUM", "MAX", "MIN", "COUNT", "IF", "IFERROR", "IFNA", "IFS", "ISERROR", "ABS", "AND", "OR", "NOT"]) :
    evalExpr env (.call f args) = .error .notImplemented := by
  simp only [List.mem_cons, List.not_mem_nil, or_false, not_or] at hf
  obtain ⟨h1, h2, h3, h4, h5, h6, h7, h8, h9, h10, h11, h12, h13⟩ := hf
  simp [evalExpr, ha, h1, h2, h3, h4, h5, h6, h7, h8, h9, h10, h11, h12, h13]

/-- … and a formula in which that happens evaluates to `#NAME?` in every cell it fills -/
theorem unknown_function_cell (env : Env F) (R C i j : Nat) (e : Expr F) (h : evalExpr env e = .error .notImplemented) :
    formulaValue env R C i j e = .err .name := by
  simp [formulaValue, h]

/-- an undefined name evaluates to `#REF!` -/
theorem undefined_name (env : Env F) (n : String) (h : env.name n = none) :
    evalExpr env (.name n) = .ok (errArr .ref) := by
  simp [evalExpr, h]

/-- **the damage is local**: changing how one address is defined — putting a fault there or removing
it — leaves every cell that does not depend on that address at its value in the other workbook -/
theorem fault_local (b b' : Book F) (hn : b.names = b'.names) (xs xr xc : Nat)
    (hsame : ∀ s r c, (s, r, c) ≠ (xs, xr, xc) → SameAt b b' s r c) (n s r c : Nat)
    (hind : ¬ Reaches b (s, r, c) (xs, xr, xc)) : value b n s r c = value b' n s r c :=
  change_local b b' hn xs xr xc hsame n s r c hind

/-- **dependents see an ordinary error value that `IFERROR` and `ISERROR` intercept** -/
theorem fault_interceptable (e : Err) (d : Val F) (hd : d = .text "d") :
    iferrorElem (.err e : Val F) d = .text "d" ∧
    evalIserror [(.arr [[.err e]] : Res F)] = .arr [[.bool true]] := by
  subst hd
  simp [iferrorElem, evalIserror, map1, Res.toArr]

end XL.C14
