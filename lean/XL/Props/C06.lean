import XL.Proofs.Merge
/-!
# C06 — Reference operators follow cell-set semantics

Property theorems only (helper lemmas live in `XL.Proofs.Rect` / `XL.Proofs.Merge`).
All statements are over unbounded coordinates and arbitrary area lists.

`Covered l p`  : some area of the list `l` contains the cell `p`;
`cover l p`    : the number of areas of `l` that contain `p` (multiplicity);
`Disjoint a b` : `a` and `b` share no cell.
-/
namespace XL.C06
open XL

/-- **intersection** (blank operator, one pair): the result covers exactly the common cells -/
theorem inter_cells (x y : Rect) (p : Cell) :
    (∃ z, inter x y = some z ∧ z.mem p) ↔ x.mem p ∧ y.mem p := inter_mem x y p

/-- an empty intersection (`#NULL!`) arises exactly when there is no common cell -/
theorem inter_null (x y : Rect) : inter x y = none ↔ ∀ p, ¬ (x.mem p ∧ y.mem p) := inter_none x y

/-- **intersection** of area lists (`Ranges.__and__`) -/
theorem interAreas_cells (self other : List Rect) (p : Cell) :
    Covered (interAreas self other) p ↔ Covered self p ∧ Covered other p :=
  interAreas_covered self other p

/-- **range operator** (`:`): the result contains every operand area and is contained in every
rectangle that does — it is the bounding rectangle -/
theorem range_bounding (r0 : Rect) (rest other : List Rect) (z : Rect)
    (h : bbox (r0 :: rest) other = some z) :
    (∀ r ∈ r0 :: rest ++ other, r.Sub z) ∧
    ∀ u : Rect, (∀ r ∈ r0 :: rest ++ other, r.WF) → (∀ r ∈ r0 :: rest ++ other, r.Sub u) → z.Sub u :=
  bbox_least r0 rest other z h

/-- the range operator fails (`InvalidRangeError`) exactly for operands on different sheets -/
theorem range_error (r0 : Rect) (rest other : List Rect) :
    bbox (r0 :: rest) other = none ↔ ∃ r ∈ rest ++ other, r.sheet ≠ r0.sheet := bbox_none r0 rest other

/-- **union** (`,`): every operand area is kept, in order … -/
theorem union_areas (a b : List Rect) : union a b = a ++ b := rfl

/-- … so a cell covered by `k` areas of the operands is covered `k` times by the union:
overlaps count twice -/
theorem union_multiplicity (a b : List Rect) (p : Cell) :
    cover (union a b) p = cover a p + cover b p := cover_append a b p

/-- **one split step**: the pieces lie in `rng` outside `base` … -/
theorem split_inside (base rng : Rect) (hw : rng.WF) (p : Cell) :
    Covered (split base rng) p → rng.mem p ∧ ¬ base.mem p := split_sub base rng hw p

/-- … and cover exactly the cells of the sheet in `rng \ base` (rows and columns count from 1; index 0 only occurs
as the first index of a whole row / column, where the code compares sides after `or 1`) -/
theorem split_cells (base rng : Rect) (hw : rng.WF) (hb : base.Pos) (p : Cell) (hp : p.Real) :
    Covered (split base rng) p ↔ rng.mem p ∧ ¬ base.mem p := split_cover base rng hw hb p hp

theorem split_nodup (base rng : Rect) : (split base rng).Pairwise Disjoint := split_disjoint base rng

/-- a whole row met by a rectangle that starts in column 1 leaves no strip to the left of column 1
(the former phantom strip `n1 = n2 = 0`, read as column A once more) -/
theorem split_no_phantom (base rng : Rect) (q : Rect) (hq : q ∈ split base rng) (hw : rng.WF) (hb : base.Pos)
    (hp : rng.Pos) : q.Pos := split_pos base rng hb hp q hq

/-- **set difference** (`Ranges.__sub__`): exactly the cells of `self` that are not in `other` -/
theorem sub_cells (self other : List Rect) (hw : ∀ q ∈ self, q.WF ∧ q.Pos) (ho : ∀ q ∈ other, q.Pos)
    (p : Cell) (hp : p.Real) :
    Covered (sub self other) p ↔ Covered self p ∧ ¬ Covered other p := by
  have := (subGo_inv self other [] [] hw ho (by simp) (by simp) (by simp [Covered]) (by simp [Covered])).2.2 p hp
  simpa [sub, Covered] using this

/-- … nothing else, whatever the coordinates … -/
theorem sub_inside (self other : List Rect) (hw : ∀ q ∈ self, q.WF ∧ q.Pos) (ho : ∀ q ∈ other, q.Pos) (p : Cell) :
    Covered (sub self other) p → Covered self p ∧ ¬ Covered other p := by
  have := (subGo_inv self other [] [] hw ho (by simp) (by simp) (by simp [Covered]) (by simp [Covered])).2.1 p
  simpa [sub, Covered] using this

/-- … and no cell twice, even when the areas of `self` overlap each other -/
theorem sub_nodup (self other : List Rect) (hw : ∀ q ∈ self, q.WF ∧ q.Pos) (ho : ∀ q ∈ other, q.Pos) :
    (sub self other).Pairwise Disjoint := by
  have := (subGo_inv self other [] [] hw ho (by simp) (by simp) (by simp [Covered]) (by simp [Covered])).1
  simpa [sub] using this

theorem sub_multiplicity (self other : List Rect) (hw : ∀ q ∈ self, q.WF ∧ q.Pos) (ho : ∀ q ∈ other, q.Pos) (p : Cell) :
    cover (sub self other) p ≤ 1 := cover_le_one _ (sub_nodup self other hw ho) p

/-- **simplification** preserves exactly the real cells of the reference set … -/
theorem simplify_cells (maxrow : Nat) (l : List Rect) (p : Cell) (hc : 1 ≤ p.col) (hr : p.row ≤ maxrow) :
    Covered (simplify maxrow l) p ↔ Covered l p := simplify_cells' maxrow l p hc hr

/-- … adds nothing … -/
theorem simplify_adds_nothing (maxrow : Nat) (l : List Rect) (p : Cell) :
    Covered (simplify maxrow l) p → Covered l p := simplify_sub maxrow l p

/-- … and returns no cell twice (for a set of at least two areas; a single area is returned
as it is) -/
theorem simplify_nodup (maxrow : Nat) (l : List Rect) (h2 : 2 ≤ l.length) :
    (simplify maxrow l).Pairwise Disjoint := simplify_disjoint' maxrow l h2

/-! ### non-vacuity: concrete instances of the hypotheses and of the operations -/

-- A1:C3 minus B2 : four strips, B2 itself excluded
example : split ⟨0, 2, 2, 2, 2⟩ ⟨0, 1, 3, 1, 3⟩ =
    [⟨0, 1, 3, 1, 1⟩, ⟨0, 1, 3, 3, 3⟩, ⟨0, 1, 1, 2, 2⟩, ⟨0, 3, 3, 2, 2⟩] := by decide
example : (⟨0, 1, 3, 1, 3⟩ : Rect).WF ∧ (⟨0, 2, 2, 2, 2⟩ : Rect).Pos := by unfold Rect.WF Rect.Pos; decide
-- the whole rows 3:5 (columns 0 … 16384) without A3:XFD4: row 5 only, no strip left of column 1
example : split ⟨0, 3, 4, 1, 16384⟩ ⟨0, 3, 5, 0, 16384⟩ = [⟨0, 5, 5, 0, 16384⟩] := by decide
example : splitRaw ⟨0, 3, 4, 1, 16384⟩ ⟨0, 3, 5, 0, 16384⟩ = [⟨0, 3, 5, 0, 0⟩, ⟨0, 5, 5, 1, 16384⟩] := by decide
-- A1:B2 B2:C3 = B2 ; A1 B2 = #NULL!
example : inter ⟨0, 1, 2, 1, 2⟩ ⟨0, 2, 3, 2, 3⟩ = some ⟨0, 2, 2, 2, 2⟩ := by decide
example : inter ⟨0, 1, 1, 1, 1⟩ ⟨0, 2, 2, 2, 2⟩ = none := by decide
-- A1:C3 → bounding box of A1 and C3
example : bbox [⟨0, 1, 1, 1, 1⟩] [⟨0, 3, 3, 3, 3⟩] = some ⟨0, 1, 3, 1, 3⟩ := by decide
-- simplify (A1:A3, A2, B1:B3) = A1:B3 (the former `A1:A2` defect, repaired by a `fix:` commit)
example : simplify 1048576 [⟨0, 1, 3, 1, 1⟩, ⟨0, 2, 2, 1, 1⟩, ⟨0, 1, 3, 2, 2⟩] = [⟨0, 1, 3, 1, 2⟩] := by decide
-- (A1:B2, B2:C3) - B2, overlapping areas of `self`
example : sub [⟨0, 1, 2, 1, 2⟩, ⟨0, 2, 3, 2, 3⟩] [⟨0, 2, 2, 2, 2⟩] =
    [⟨0, 1, 2, 1, 1⟩, ⟨0, 1, 1, 2, 2⟩, ⟨0, 2, 3, 3, 3⟩, ⟨0, 3, 3, 2, 2⟩] := by decide

end XL.C06
