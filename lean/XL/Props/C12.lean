import XL.Proofs.Fn
import XL.Props.C02
/-!
# C12 — the core function library matches its Excel definitions

`XL.Model.Fn` holds the reference definitions (my reading of the Excel documentation, DESIGN §3 C12);
the check compares the implementation with them on generated argument tuples.  The theorems here say
that these definitions are the rules the property names:

* the information functions partition the values (`is_partition`);
* referenced versus directly typed arguments of aggregations (`agg_direct`, `agg_in_range`);
* aggregation does not depend on the order of its numbers (`sum_perm`, `count_perm`, for a number type
  whose addition is commutative and associative — floating point addition is not associative, the
  implementation's `np.sum` order is outside the claim);
* decimal rounding: `ROUND` picks a nearest decimal at the requested place (error at most half a unit),
  `ROUNDUP` moves away from zero by less than one unit, `ROUNDDOWN` / `TRUNC` toward zero
  (`round_nearest`, `roundup_away`, `rounddown_toward`), rounding is odd (`round_neg`), and numbers
  with an exact decimal form round from that form (`round_1005`, `rounddown_115`);
* `CEILING` / `FLOOR` return the neighbouring multiples (`ceiling_multiple`, `floor_multiple`), `EVEN` /
  `ODD` the next even / odd integer away from zero (`even_spec`, `odd_spec`);
* `SWITCH` returns the value of the first matching case (`switch_first`), `XOR` is the parity of its true
  arguments (`xor_parity`);
* text: `LEFT(t,n) & MID(t,n+1,…)` is `t` (`left_mid_split`), `REPLACE` splices (`replace_all`,
  `replace_nothing`), `FIND` returns a position where the text occurs, not before the start (`find_sound`).
-/
namespace XL.C12
open XL
variable {F : Type} [Num F]

/-! ### information -/

/-- every value is exactly one of number, text, logical, blank, error -/
theorem is_partition (v : Val F) :
    let t (n : String) := isFn n v = some (.bool true)
    (t "ISNUMBER" ∨ t "ISTEXT" ∨ t "ISLOGICAL" ∨ t "ISBLANK" ∨ t "ISERROR") ∧
    ¬ (t "ISNUMBER" ∧ t "ISTEXT") ∧ ¬ (t "ISNUMBER" ∧ t "ISLOGICAL") ∧ ¬ (t "ISNUMBER" ∧ t "ISBLANK") ∧
    ¬ (t "ISNUMBER" ∧ t "ISERROR") ∧ ¬ (t "ISTEXT" ∧ t "ISLOGICAL") ∧ ¬ (t "ISTEXT" ∧ t "ISBLANK") ∧
    ¬ (t "ISTEXT" ∧ t "ISERROR") ∧ ¬ (t "ISLOGICAL" ∧ t "ISBLANK") ∧ ¬ (t "ISLOGICAL" ∧ t "ISERROR") ∧
    ¬ (t "ISBLANK" ∧ t "ISERROR") := by
  cases v <;> simp [isFn]

/-- `ISNONTEXT` is the negation of `ISTEXT`; `ISERROR` is `ISERR` or `ISNA`, never both -/
theorem is_relations (v : Val F) :
    (isFn "ISNONTEXT" v = some (.bool true) ↔ isFn "ISTEXT" v = some (.bool false)) ∧
    (isFn "ISERROR" v = some (.bool true) ↔ (isFn "ISERR" v = some (.bool true) ∨ isFn "ISNA" v = some (.bool true))) ∧
    ¬ (isFn "ISERR" v = some (.bool true) ∧ isFn "ISNA" v = some (.bool true)) := by
  cases v with
  | err e => cases e <;> simp [isFn]
  | _ => simp [isFn]

/-! ### referenced versus directly typed arguments -/

/-- typed directly: a logical counts as 1/0, numeric text as its number, other text is `#VALUE!` -/
theorem agg_direct (b : Bool) (s : String) (x : F) :
    aggNums [(.scalar (.bool b) : Res F)] = .ok [if b then Num.one else Num.zero] ∧
    (Num.ofText s = some x → aggNums [(.scalar (.text s) : Res F)] = .ok [x]) ∧
    ((Num.ofText s : Option F) = none → aggNums [(.scalar (.text s) : Res F)] = .error .value) := by
  refine ⟨?_, ?_, ?_⟩
  · simp [aggNums, flatVals, Res.toArr, firstErr, List.foldlM]
  · intro h; simp [aggNums, flatVals, Res.toArr, firstErr, List.foldlM, h]
  · intro h; simp [aggNums, flatVals, Res.toArr, firstErr, List.foldlM, h]

/-- inside a range: logicals, blanks and text — also text that looks like a number — are skipped
(the pinned code converts numeric text there: known finding `numeric-text-in-range`) -/
theorem agg_in_range (b : Bool) (s : String) (x : F) :
    aggNums [(.arr [[.bool b, .blank, .text s, .num x]] : Res F)] = .ok [x] := by
  simp [aggNums, flatVals, Res.toArr, firstErr, List.foldlM]

/-- an error anywhere is the result -/
theorem agg_error (e : Err) (x : F) :
    aggNums [(.scalar (.num x) : Res F), .arr [[.num x, .err e]]] = .error e := by
  simp [aggNums, flatVals, Res.toArr, firstErr]

/-! ### order invariance -/

/-- the sum does not depend on the order of the numbers (commutative, associative addition) -/
theorem sum_perm (hc : ∀ a b : F, Num.add a b = Num.add b a) (ha : ∀ a b c : F, Num.add (Num.add a b) c = Num.add a (Num.add b c))
    (l l' : List F) (h : l.Perm l') : fsum l = fsum l' := by
  unfold fsum
  exact foldl_perm Num.add (fun b x y => by rw [ha, hc x y, ← ha]) l l' h _

theorem product_perm (hc : ∀ a b : F, Num.mul a b = Num.mul b a) (ha : ∀ a b c : F, Num.mul (Num.mul a b) c = Num.mul a (Num.mul b c))
    (l l' : List F) (h : l.Perm l') : fprod l = fprod l' := by
  unfold fprod
  exact foldl_perm Num.mul (fun b x y => by rw [ha, hc x y, ← ha]) l l' h _

theorem count_perm (l l' : List F) (h : l.Perm l') : l.length = l'.length := h.length_eq

/-! ### decimal rounding (magnitudes `m`, unit `p = 10^k`) -/

/-- **ROUND**: the result is a multiple of the unit nearest to the number -/
theorem round_nearest (m p : Nat) (hp : 0 < p) :
    2 * (roundQ .halfUp (m / p) (m % p) p * p - m) ≤ p ∧ 2 * (m - roundQ .halfUp (m / p) (m % p) p * p) ≤ p :=
  roundQ_halfUp_nearest m p hp

/-- **ROUNDUP**: away from zero, by less than one unit -/
theorem roundup_away (m p : Nat) (hp : 0 < p) :
    m ≤ roundQ .away (m / p) (m % p) p * p ∧ roundQ .away (m / p) (m % p) p * p < m + p := roundQ_away_bounds m p hp

/-- **ROUNDDOWN / TRUNC**: toward zero, by less than one unit -/
theorem rounddown_toward (m p : Nat) (hp : 0 < p) :
    roundQ .toward (m / p) (m % p) p * p ≤ m ∧ m < roundQ .toward (m / p) (m % p) p * p + p := roundQ_toward_bounds m p hp

/-- `ROUND(-x, d) = -ROUND(x, d)` for every mode -/
theorem round_neg (mode : RMode) (m e d : Int) (hm : m ≠ 0) :
    roundDec mode (-m) e d = (-(roundDec mode m e d).1, (roundDec mode m e d).2) := roundDec_neg mode m e d hm

/-- numbers with an exact decimal form round from that form: 1.005 → 1.01, 2.675 → 2.68, 1.15 stays 1.15
under `ROUNDDOWN(…, 2)`, 2.5 → 3, 1250 → 1300 at the hundreds -/
theorem round_1005 :
    roundDec .halfUp 1005 (-3) 2 = (101, -2) ∧ roundDec .halfUp 2675 (-3) 2 = (268, -2) ∧
    roundDec .toward 115 (-2) 2 = (115, -2) ∧ roundDec .halfUp 25 (-1) 0 = (3, 0) ∧ roundDec .halfUp 1250 0 (-2) = (13, 2) ∧
    roundDec .halfUp (-25) (-1) 0 = (-3, 0) := by decide

/-! ### multiples -/

/-- **CEILING** (positive significance): the smallest multiple not below the number -/
theorem ceiling_multiple (X S : Int) (hS : 0 < S) :
    let q' := if X % S = 0 then X / S else X / S + 1
    X ≤ q' * S ∧ q' * S < X + S := ceiling_pos X S hS

/-- **FLOOR** (positive significance): the largest multiple not above the number -/
theorem floor_multiple (X S : Int) (hS : 0 < S) : X / S * S ≤ X ∧ X < X / S * S + S := floor_pos X S hS

theorem even_spec (a : Int) (ha : 0 ≤ a) :
    let v := if a % 2 = 0 then a else a + 1
    v % 2 = 0 ∧ a ≤ v ∧ v < a + 2 := even_step a ha

theorem odd_spec (a : Int) (ha : 0 ≤ a) :
    let v := if a % 2 = 1 then a else a + 1
    v % 2 = 1 ∧ a ≤ v ∧ v < a + 2 := odd_step a ha

/-! ### logical -/

/-- **SWITCH**: a matching first case gives its value; a non-matching, non-error case is skipped; an error
case is returned; nothing left gives the default or `#N/A` -/
theorem switch_first (e c v : Val F) (rest : List (Val F)) (hc : ∀ x, c ≠ .err x) :
    (switchEq e c = true → switchFn e (c :: v :: rest) = v) ∧
    (switchEq e c = false → switchFn e (c :: v :: rest) = switchFn e rest) ∧
    (∀ x, switchFn e (.err x :: v :: rest) = .err x) ∧ switchFn e [v] = v ∧ switchFn e [] = .err .na := by
  refine ⟨?_, ?_, ?_, rfl, rfl⟩
  · intro h; cases c <;> simp_all [switchFn]
  · intro h; cases c <;> simp_all [switchFn]
  · intro x; simp [switchFn]

/-- a logical never equals a number (text cases are compared without regard to case: example below) -/
theorem switch_eq_rules (x : F) (b : Bool) :
    switchEq (.num x : Val F) (.bool b) = false ∧ switchEq (.bool b : Val F) (.num x) = false := ⟨rfl, rfl⟩

/-- **XOR** is TRUE exactly when an odd number of its logical arguments are TRUE -/
theorem xor_parity (args : List (Res F)) (h : firstErr (flatVals args) = none) (hne : logicals args ≠ []) :
    xorFn args = .bool (((logicals args).filter id).length % 2 = 1) := by
  unfold xorFn
  rw [h]
  cases hl : logicals args with
  | nil => exact absurd hl hne
  | cons a l => simp

/-! ### text -/

/-- the first `n` characters followed by the rest are the text: `LEFT(t,n) & MID(t,n+1,LEN(t)) = t` -/
theorem left_mid_split (t : List Char) (n : Nat) : t.take n ++ (t.drop n).take t.length = t := by
  have : (t.drop n).take t.length = t.drop n := List.take_of_length_le (by simp)
  rw [this, List.take_append_drop]

/-- `LEN(a & b) = LEN(a) + LEN(b)` -/
theorem len_concat (a b : List Char) : (a ++ b).length = a.length + b.length := List.length_append

/-- `REPLACE(t, 1, LEN(t), new) = new` and `REPLACE(t, s, 0, "") = t` -/
theorem replace_all (t new : List Char) : t.take (1 - 1) ++ new ++ t.drop (1 - 1 + t.length) = new := by simp

theorem replace_nothing (t : List Char) (s : Nat) : t.take (s - 1) ++ [] ++ t.drop (s - 1 + 0) = t := by simp

/-- **FIND**: the position returned is one where the text occurs, at or after the start -/
theorem find_sound (pat s : List Char) (start i : Nat) (h : findFrom pat s start = some i) :
    pat.isPrefixOf (s.drop i) = true ∧ start ≤ i ∧ i ≤ s.length := findFrom_sound pat s start i h

/-! ### non-vacuity (over `Int`, the instance of `XL.Props.C02`) -/
section Example
open XL.C02

example : switchEq (.text "Ab" : Val Int) (.text "aB") = true := by decide +kernel

example : fsum ([3, 1, 2] : List Int) = fsum [1, 2, 3] :=
  sum_perm (F := Int) (fun a b => Int.add_comm a b) (fun a b c => Int.add_assoc a b c) _ _ (by decide)

example : aggFn "SUM" [(.scalar (.num 2) : Res Int), .arr [[.num 3, .bool true, .text "x"]]] = some (.num 5) := by decide +kernel
example : aggFn "MEDIAN" [(.arr [[.num 5, .num 1, .num 3, .num 9]] : Res Int)] = some (.num 4) := by decide +kernel
example : findFrom "b".toList "abcb".toList 2 = some 3 := by decide +kernel
example : textFn "REPLACE" [(.text "abcdef" : Val Int), .num 2, .num 3, .text "X"] = some (.text "aXef") := by decide +kernel
example : textFn "SUBSTITUTE" [(.text "aXbXc" : Val Int), .text "X", .text "y", .num 2] = some (.text "aXbyc") := by decide +kernel

end Example
/-! ### SUMPRODUCT -/

/-- an error value in any array is the result of `SUMPRODUCT` (the first one in argument order) -/
theorem sumproduct_error (args : List (Res F)) (e : Err) (h : firstErr (flatVals args) = some e) :
    sumproductFn args = .err e := by
  simp [sumproductFn, h]

/-- arrays of different shapes give `#VALUE!` -/
theorem sumproduct_shape (a b : Arr (Val F)) (rest : List (Res F)) (hne : firstErr (flatVals (.arr a :: .arr b :: rest)) = none)
    (hs : (b.length == a.length && (b.map List.length) == (a.map List.length)) = false) :
    sumproductFn (.arr a :: .arr b :: rest) = .err .value := by
  simp only [sumproductFn, hne, List.map_cons, Res.toArr, List.all_cons, hs, Bool.false_and]
  rfl

/-- whatever is not a number counts as zero: text (also text that looks like a number — `fix:` commit),
logicals, blanks -/
theorem sumproduct_nonnumber_zero (s : String) (b : Bool) :
    spTerm (.text s : Val F) = Num.zero ∧ spTerm (.bool b : Val F) = Num.zero ∧ spTerm (.blank : Val F) = Num.zero := ⟨rfl, rfl, rfl⟩

/-- the term of one position is the product of the entries at that position: the order of the arrays does
not matter (commutative, associative multiplication) -/
theorem sumproduct_swap (hc : ∀ a b : F, Num.mul a b = Num.mul b a) (ha : ∀ a b c : F, Num.mul (Num.mul a b) c = Num.mul a (Num.mul b c))
    (x y : F) (rest : List F) : fprod (x :: y :: rest) = fprod (y :: x :: rest) :=
  product_perm hc ha _ _ (List.Perm.swap y x rest)

/-! ### SUBSTITUTE -/

/-- the searched text occurs nowhere in `s` -/
def Absent (old : List Char) : List Char → Prop
  | [] => True
  | c :: s => old.isPrefixOf (c :: s) = false ∧ Absent old s

/-- **SUBSTITUTE changes nothing when the searched text does not occur** (or is empty), whatever the
instance number -/
theorem substitute_absent (old new : List Char) (inst : Option Nat) :
    ∀ (fuel seen : Nat) (s : List Char), Absent old s → substitute old new inst fuel seen s = s
  | 0, _, s, _ => by cases s <;> simp [substitute]
  | fuel + 1, seen, [], _ => by simp [substitute]
  | fuel + 1, seen, c :: s, h => by
    obtain ⟨h1, h2⟩ := h
    simp only [substitute, h1, Bool.false_eq_true, if_false]
    split
    · rfl
    · rw [substitute_absent old new inst fuel seen s h2]

theorem substitute_empty_old (new : List Char) (inst : Option Nat) (fuel seen : Nat) (s : List Char) :
    substitute [] new inst fuel seen s = s := by
  cases fuel <;> cases s <;> simp [substitute]

/-- **an instance number below 1 is `#VALUE!`, whether or not the searched text occurs** -/
theorem substitute_bad_instance (t o nw i : Val F) (k : Int) (hne : firstErr [t, o, nw, i] = none)
    (hi : intArg i = .ok k) (hk : k < 1) : textFn "SUBSTITUTE" [t, o, nw, i] = some (.err .value) := by
  simp [textFn, hne, hi, hk]

example : Absent "xy".toList "axbyc".toList ∧ ¬ Absent "xy".toList "axyc".toList := by
  simp [Absent, List.isPrefixOf]
open XL.C02 in
example : textFn "SUBSTITUTE" [(.text "a-b-c" : Val Int), .text "x", .text "+", .num 0] = some (.err .value) ∧
    textFn "SUBSTITUTE" [(.text "a-b-c" : Val Int), .text "-", .text "+", .num 2] = some (.text "a-b+c") := by decide +kernel
end XL.C12
