import XL.Proofs.Ops
/-!
# C02 — operators implement Excel's scalar semantics for every kind of operand

All theorems hold for **every** number type `F` (`[Num F]`), the comparison laws under the
order hypotheses `[LawfulNum F]` that finite IEEE doubles satisfy.  `Int` instantiates both
classes with proofs at the end of the file, so the hypotheses are satisfiable.
-/
namespace XL.C02
open XL
variable {F : Type} [Num F]

/-- **left-most error wins**: an error in the first operand is returned unchanged … -/
theorem arith_error_left (o : AOp) (e : Err) (b : Val F) : arith o (.err e) b = .err e := by
  simp [arith, firstErr]

/-- … and an error in the second operand is returned when the first is not an error -/
theorem arith_error_right (o : AOp) (a : Val F) (e : Err) (ha : ¬ IsErr a) : arith o a (.err e) = .err e := by
  simp [arith, firstErr_right a e ha]

theorem cmp_error_left (o : COp) (e : Err) (b : Val F) : cmp o (.err e) b = .err e := by
  simp [cmp, firstErr]
theorem cmp_error_right (o : COp) (a : Val F) (e : Err) (ha : ¬ IsErr a) : cmp o a (.err e) = .err e := by
  simp [cmp, firstErr_right a e ha]
theorem concat_error_left (e : Err) (b : Val F) : concat (.err e) b = .err e := by
  simp [concat, firstErr]
theorem concat_error_right (a : Val F) (e : Err) (ha : ¬ IsErr a) : concat a (.err e) = .err e := by
  simp [concat, firstErr_right a e ha]
theorem unary_error (o : UOp) (e : Err) : unary o (.err e : Val F) = .err e := by
  simp [unary, firstErr]

/-- **coercion**: numbers as they are, `TRUE/FALSE` as 1/0, blank as 0, numeric text as its
number; the operator is then applied to the coerced numbers -/
theorem arith_coercion (o : AOp) (a b : Val F) (x y : F) (ha : toNum a = .ok x) (hb : toNum b = .ok y) :
    arith o a b = arithRaw o x y := by
  have hfa : ¬ IsErr a := by intro h; cases a <;> simp_all [IsErr, toNum]
  have hfb : ¬ IsErr b := by intro h; cases b <;> simp_all [IsErr, toNum]
  have : firstErr [a, b] = none := (firstErr_none_iff a b).mpr ⟨hfa, hfb⟩
  simp [arith, this, ha, hb]

theorem coercion_table (x : F) (s : String) :
    toNum (.num x : Val F) = .ok x ∧ toNum (.bool true : Val F) = .ok Num.one ∧
    toNum (.bool false : Val F) = .ok Num.zero ∧ toNum (.blank : Val F) = .ok Num.zero ∧
    toNum (.text s : Val F) = (match (Num.ofText s : Option F) with | some v => .ok v | none => .error .value) := by
  refine ⟨rfl, rfl, rfl, rfl, ?_⟩
  simp only [toNum]
  split <;> simp_all

/-- **other text gives `#VALUE!`** (no operand being an error) -/
theorem arith_text_value (o : AOp) (a b : Val F) (ha : ¬ IsErr a) (hb : ¬ IsErr b)
    (h : toNum a = .error .value ∨ toNum b = .error .value) : arith o a b = .err .value := by
  have : firstErr [a, b] = none := (firstErr_none_iff a b).mpr ⟨ha, hb⟩
  unfold arith
  rw [this]
  simp only
  rcases h with h | h
  · rw [h]
  · cases hta : toNum a with
    | ok x => rw [h]
    | error e =>
      have := (toNum_err_iff a e ha hta).1
      subst this; rfl

/-- **division by zero gives `#DIV/0!`**, whatever the dividend -/
theorem div_by_zero (a b : Val F) (x y : F) (ha : toNum a = .ok x) (hb : toNum b = .ok y)
    (hz : Num.isZero y = true) : arith .div a b = .err .div0 := by
  rw [arith_coercion .div a b x y ha hb]; simp [arithRaw, hz]

/-- `0^0 = #NUM!`, `0^negative = #DIV/0!` -/
theorem pow_zero (a b : Val F) (x y : F) (ha : toNum a = .ok x) (hb : toNum b = .ok y)
    (hx : Num.isZero x = true) :
    (Num.isZero y = true → arith .pow a b = .err .num) ∧
    (Num.isZero y = false → Num.isNeg y = true → arith .pow a b = .err .div0) := by
  rw [arith_coercion .pow a b x y ha hb]
  constructor
  · intro hy; simp [arithRaw, power, hx, hy]
  · intro hy hn; simp [arithRaw, power, hx, hy, hn]

/-- **non-finite or non-real raw results become `#NUM!`**, finite ones are returned -/
theorem nonfinite_is_num (x : F) :
    (Num.isFinite x = false → (convertNan x : Val F) = .err .num) ∧
    (Num.isFinite x = true → (convertNan x : Val F) = .num x) := by
  unfold convertNan; constructor <;> intro h <;> simp [h]

/-- **the result is always one well-formed Excel value**: a finite number, text, a logical or
one of the seven errors — for every operator and every pair of operands -/
theorem result_wellformed (o : AOp) (a b : Val F) : WF (arith o a b) := arith_wf o a b

theorem unary_wellformed (o : UOp) (a : Val F) (ha : WF a) : WF (unary o a) := by
  unfold unary
  split
  · trivial
  · cases o <;> simp only
    · cases a <;> simp_all [WF]
      all_goals exact convertNan_wf _
    · split
      · exact convertNan_wf _
      · trivial
    · split
      · exact convertNan_wf _
      · trivial

theorem cmp_wellformed (o : COp) (a b : Val F) : WF (cmp o a b) := by
  unfold cmp; split <;> trivial

theorem concat_wellformed (a b : Val F) : WF (concat a b) := by
  unfold concat; split <;> trivial

/-- **`&` joins the display forms**: logicals as `TRUE/FALSE`, blank as the empty text -/
theorem concat_spec (a b : Val F) (ha : ¬ IsErr a) (hb : ¬ IsErr b) :
    concat a b = .text (displayVal a ++ displayVal b) := by
  have : firstErr [a, b] = none := (firstErr_none_iff a b).mpr ⟨ha, hb⟩
  simp [concat, this]

theorem display_table (s : String) :
    displayVal (.bool true : Val F) = "TRUE" ∧ displayVal (.bool false : Val F) = "FALSE" ∧
    displayVal (.blank : Val F) = "" ∧ displayVal (.text s : Val F) = s := by
  simp [displayVal]

/-- **numbers < text < logicals**: a value of lower type rank is smaller, whatever the contents -/
theorem cmp_rank (a b : Val F) (h : rank a < rank b) :
    cmpKeys .lt a b = true ∧ cmpKeys .le a b = true ∧ cmpKeys .ne a b = true ∧
    cmpKeys .eq a b = false ∧ cmpKeys .gt a b = false ∧ cmpKeys .ge a b = false := by
  have h1 : ¬ rank b < rank a := by omega
  have h2 : ¬ rank b = rank a := by omega
  have h3 : ¬ rank a = rank b := by omega
  simp [cmpKeys, keyLt, keyEq, h, h1, h2, h3]

/-- **one total order**: between comparable values exactly one of `<`, `=`, `>` holds … -/
theorem cmp_trichotomy [LawfulNum F] (a b : Val F) (ha : Comparable a) (hb : Comparable b) :
    (cmpKeys .lt a b = true ∧ cmpKeys .eq a b = false ∧ cmpKeys .gt a b = false) ∨
    (cmpKeys .lt a b = false ∧ cmpKeys .eq a b = true ∧ cmpKeys .gt a b = false) ∨
    (cmpKeys .lt a b = false ∧ cmpKeys .eq a b = false ∧ cmpKeys .gt a b = true) :=
  key_trichotomy a b ha hb

/-- … the six comparisons are the six relations of that order … -/
theorem cmp_six (a b : Val F) :
    cmpKeys .le a b = (cmpKeys .lt a b || cmpKeys .eq a b) ∧
    cmpKeys .ge a b = (cmpKeys .gt a b || cmpKeys .eq a b) ∧
    cmpKeys .ne a b = !cmpKeys .eq a b ∧
    cmpKeys .gt a b = cmpKeys .lt b a := by
  simp [cmpKeys]

/-- … `<=` is the negation of `>` and `>=` the negation of `<` on comparable values … -/
theorem cmp_le_not_gt [LawfulNum F] (a b : Val F) (ha : Comparable a) (hb : Comparable b) :
    cmpKeys .le a b = !cmpKeys .gt a b ∧ cmpKeys .ge a b = !cmpKeys .lt a b := by
  rcases key_trichotomy a b ha hb with ⟨h1, h2, h3⟩ | ⟨h1, h2, h3⟩ | ⟨h1, h2, h3⟩ <;> simp [cmpKeys, h1, h2, h3]

/-- … and `<` is irreflexive and transitive -/
theorem cmp_lt_irrefl [LawfulNum F] (a : Val F) : cmpKeys .lt a a = false := keyLt_irrefl a
theorem cmp_lt_trans [LawfulNum F] (a b c : Val F) (h1 : cmpKeys .lt a b = true) (h2 : cmpKeys .lt b c = true) :
    cmpKeys .lt a c = true := keyLt_trans a b c h1 h2

/-- a blank is compared as `""` against text and as `0` otherwise -/
theorem cmp_blank (s : String) (x : F) (b : Bool) :
    cmpKey (.blank : Val F) (.text s) = .text "" ∧ cmpKey (.blank : Val F) (.num x) = .num Num.zero ∧
    cmpKey (.blank : Val F) (.bool b) = .num Num.zero ∧ cmpKey (.blank : Val F) .blank = .num Num.zero := by
  simp [cmpKey]

/-- unary `+` is the identity on text and logicals, `-x` and `x%` are arithmetic on the coerced operand -/
theorem unary_spec (s : String) (b : Bool) (a : Val F) (x : F) (hx : toNum a = .ok x) (ha : ¬ IsErr a) :
    unary .plus (.text s : Val F) = .text s ∧ unary .plus (.bool b : Val F) = .bool b ∧
    unary .minus a = convertNan (Num.neg x) ∧ unary .percent a = convertNan (Num.div x Num.hundred) := by
  have : firstErr [a] = none := by cases a <;> simp_all [firstErr, IsErr]
  simp [unary, firstErr, this, hx]

/-! ### the hypotheses are satisfiable: `Int` is a lawful number type -/

def intOfText (s : String) : Option Int :=
  match s.toList with
  | [] => none
  | cs => if cs.all Char.isDigit then some ((cs.foldl (fun a c => a * 10 + (c.toNat - 48)) 0 : Nat) : Int) else none

instance : Num Int where
  zero := 0
  one := 1
  hundred := 100
  add := (· + ·)
  sub := (· - ·)
  mul := (· * ·)
  div := (· / ·)
  neg := fun x => -x
  pow := fun x y => x ^ y.toNat
  isFinite := fun _ => true
  isZero := fun x => x == 0
  isNeg := fun x => x < 0
  lt := fun a b => decide (a < b)
  eq := fun a b => a == b
  ofText := intOfText
  display := toString
  toDec := fun n => (n, 0)
  ofDec := fun m e => if e ≥ 0 then m * 10 ^ e.toNat else m / 10 ^ (-e).toNat
  kernel1 := fun _ x => x
  kernel2 := fun _ x _ => x

instance : LawfulNum Int where
  lt_irrefl := by intro a; simp [Num.lt]
  lt_trans := by intro a b c; simp only [Num.lt, decide_eq_true_eq]; omega
  eq_refl := by intro a _; simp [Num.eq]
  tri := by
    intro a b _ _
    simp only [Num.lt, Num.eq, decide_eq_true_eq, decide_eq_false_iff_not, beq_iff_eq, beq_eq_false_iff_ne]
    omega

/-! ### non-vacuity -/
example : arith .add (.text "abc" : Val Int) (.num 1) = .err .value := by decide +kernel
example : arith .div (.num 1 : Val Int) .blank = .err .div0 := by decide +kernel
example : arith .add (.err .na : Val Int) (.err .div0) = .err .na := by decide +kernel
example : arith .mul (.bool true : Val Int) (.text "12") = .num 12 := by decide +kernel
example : concat (.bool true : Val Int) .blank = .text "TRUE" := by decide +kernel
example : cmp .lt (.num 5 : Val Int) (.text "a") = .bool true := by decide +kernel
example : cmp .lt (.text "zz" : Val Int) (.bool false) = .bool true := by decide +kernel
example : cmp .eq (.text "a" : Val Int) (.text "A") = .bool true := by decide +kernel
example : cmp .eq (.blank : Val Int) (.text "") = .bool true := by decide +kernel
example : Comparable (.num 3 : Val Int) ∧ Comparable (.text "x" : Val Int) := by simp [Comparable, Num.isFinite]

end XL.C02
