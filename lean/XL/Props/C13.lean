import XL.Model.Eval
import XL.Generated.Tables
/-!
# C13 — volatile functions are never frozen and are seen consistently

What a pure model can carry:

* `volatile_registered`: in the function table **generated from the source**, NOW, TODAY, RAND and
  RANDBETWEEN are registered with the `COMPILING` extra input (i.e. wrapped by `wrap_impure_func`);
* `compile_time_value`: the model of `AstBuilder.compile`'s pre-evaluation — a volatile call yields no
  value while compiling, and a node is pre-evaluated only if all its inputs were — never assigns a
  compile-time value to an expression that contains a volatile call, at any depth and argument position;
* `randbetween_in_range`: the integer draw of `xrandbetween` (after the `fix:` commit) lies within its
  bounds for every `u ∈ [0, 1)`.

The wall clock and numpy's generator cannot be exhibited in Lean: "evaluated afresh" and "every
dependent sees the same value within one calculation" are observed on the implementation with the
clock and `numpy.random.rand` replaced by counters.
-/
namespace XL.C13
open XL
variable {F : Type} [Num F]

theorem volatile_registered :
    "NOW" ∈ Generated.volatileFunctions ∧ "TODAY" ∈ Generated.volatileFunctions ∧
    "RAND" ∈ Generated.volatileFunctions ∧ "RANDBETWEEN" ∈ Generated.volatileFunctions := by decide

def isVolatile (f : String) : Bool := Generated.volatileFunctions.contains f

mutual
/-- the expression contains a call to a volatile function somewhere -/
def hasVolatile : Expr F → Bool
  | .bin _ l r => hasVolatile l || hasVolatile r
  | .un _ x => hasVolatile x
  | .call f args => isVolatile f || hasVolatileArgs args
  | _ => false
def hasVolatileArgs : List (Expr F) → Bool
  | [] => false
  | a :: as => hasVolatile a || hasVolatileArgs as
end

mutual
/-- compile-time pre-evaluation (`inp[COMPILING] = True; res = dsp(inp)`): `true` = the node gets a
value and is frozen.  A volatile function returns `sh.NONE` while compiling; a function node fires
only when every input has a value. -/
def preEvaluated : Expr F → Bool
  | .bin _ l r => preEvaluated l && preEvaluated r
  | .un _ x => preEvaluated x
  | .call f args => !isVolatile f && preEvaluatedArgs args
  | .ref _ => false          -- references are the inputs of the compiled function
  | .name _ => false
  | _ => true
def preEvaluatedArgs : List (Expr F) → Bool
  | [] => true
  | a :: as => preEvaluated a && preEvaluatedArgs as
end

mutual
/-- **no result is fixed at compile time**: an expression with a volatile call at any depth and
argument position is never pre-evaluated -/
theorem compile_time_value : ∀ (e : Expr F), hasVolatile e = true → preEvaluated e = false
  | .lit _, h => by simp [hasVolatile] at h
  | .empty, h => by simp [hasVolatile] at h
  | .ref _, _ => by simp [preEvaluated]
  | .name _, _ => by simp [preEvaluated]
  | .array _, h => by simp [hasVolatile] at h
  | .bin o l r, h => by
    simp only [hasVolatile, Bool.or_eq_true] at h
    simp only [preEvaluated, Bool.and_eq_false_iff]
    rcases h with h | h
    · exact Or.inl (compile_time_value l h)
    · exact Or.inr (compile_time_value r h)
  | .un o x, h => by
    simp only [hasVolatile] at h
    simp only [preEvaluated]; exact compile_time_value x h
  | .call f args, h => by
    simp only [hasVolatile, Bool.or_eq_true] at h
    simp only [preEvaluated, Bool.and_eq_false_iff, Bool.not_eq_false']
    rcases h with h | h
    · exact Or.inl h
    · exact Or.inr (compile_time_args args h)
theorem compile_time_args : ∀ (args : List (Expr F)), hasVolatileArgs args = true → preEvaluatedArgs args = false
  | [], h => by simp [hasVolatileArgs] at h
  | a :: as, h => by
    simp only [hasVolatileArgs, Bool.or_eq_true] at h
    simp only [preEvaluatedArgs, Bool.and_eq_false_iff]
    rcases h with h | h
    · exact Or.inl (compile_time_value a h)
    · exact Or.inr (compile_time_args as h)
end

/-- `bottom + int((top - bottom + 1) * u)` for `u = p / q ∈ [0, 1)` is an integer within the bounds -/
theorem randbetween_in_range (bottom top : Int) (p q : Nat) (hq : 0 < q) (hu : p < q) (hbt : bottom ≤ top) :
    bottom ≤ bottom + (((top - bottom + 1).toNat * p / q : Nat) : Int) ∧
    bottom + (((top - bottom + 1).toNat * p / q : Nat) : Int) ≤ top := by
  generalize hn : (top - bottom + 1).toNat = n
  have hn' : (n : Int) = top - bottom + 1 := by rw [← hn]; exact Int.toNat_of_nonneg (by omega)
  have hpos : 0 < n := by omega
  have hlt : n * p / q < n := by
    apply Nat.div_lt_of_lt_mul
    rw [Nat.mul_comm q n]
    exact Nat.mul_lt_mul_of_pos_left hu hpos
  generalize n * p / q = k at hlt ⊢
  omega

/-! ### non-vacuity -/
example : hasVolatile (.bin (.arith .add) (.lit (.num (1 : Int))) (.call "IF" [.lit (.num 1), .call "RAND" [], .lit (.num 0)]) : Expr Int) = true := by
  decide
example : preEvaluated (.bin (.arith .add) (.lit (.num (1 : Int))) (.call "SUM" [.lit (.num 1), .lit (.num 2)]) : Expr Int) = true := by
  decide

end XL.C13
