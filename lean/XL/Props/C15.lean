import XL.Proofs.Book
/-!
# C15 — a model loaded from chosen outputs equals the full model on them

`restrictBook b keep` is the model `from_ranges(*outputs)` builds: it keeps some of the cell
definitions.  `RelevantTo d s r c` : the definition `d` sits at the address or is an array formula
spilling over it.  The theorem says what the work-list of `complete` must achieve (keep every
definition relevant to an address the outputs reach) and that this is enough.
-/
namespace XL.C15
open XL
variable {F : Type} [Num F]

/-- **nothing the sub-model omits matters**: if every definition relevant to an address reachable from
an output is kept, the output has the same value as in the full model (any evaluation depth) -/
theorem sub_model_equals_full (b : Book F) (keep : CellDef F → Bool) (n s r c : Nat)
    (hclosed : ∀ s' r' c', Reaches b (s, r, c) (s', r', c') → ∀ d ∈ b.cells, RelevantTo d s' r' c' → keep d = true) :
    value (restrictBook b keep) n s r c = value b n s r c := sub_eq_full b keep n s r c hclosed

/-- keeping everything is the identity: completing a complete model changes nothing -/
theorem restrict_all (b : Book F) : restrictBook b (fun _ => true) = b := by
  cases b; simp [restrictBook]

/-- restricting twice with the same predicate is restricting once (idempotence of completion) -/
theorem restrict_idempotent (b : Book F) (keep : CellDef F → Bool) :
    restrictBook (restrictBook b keep) keep = restrictBook b keep := by
  simp [restrictBook]

/-! ### every choice of outputs -/

/-- the closure condition of `sub_model_equals_full` for one output address -/
def ClosedFor (b : Book F) (keep : CellDef F → Bool) (s r c : Nat) : Prop :=
  ∀ s' r' c', Reaches b (s, r, c) (s', r', c') → ∀ d ∈ b.cells, RelevantTo d s' r' c' → keep d = true

omit [Num F] in
/-- loading **more** than needed is harmless: a superset of a closed selection is closed -/
theorem closed_mono (b : Book F) (keep keep' : CellDef F → Bool) (s r c : Nat)
    (hsub : ∀ d, keep d = true → keep' d = true) (h : ClosedFor b keep s r c) : ClosedFor b keep' s r c :=
  fun s' r' c' hr d hd hrel => hsub d (h s' r' c' hr d hd hrel)

/-- **every choice of outputs gives the same values**: two sub-models, loaded for different output
sets that both reach the address, agree on it (both equal the full model) -/
theorem sub_models_agree (b : Book F) (keep keep' : CellDef F → Bool) (n s r c : Nat)
    (h : ClosedFor b keep s r c) (h' : ClosedFor b keep' s r c) :
    value (restrictBook b keep) n s r c = value (restrictBook b keep') n s r c := by
  rw [sub_model_equals_full b keep n s r c h, sub_model_equals_full b keep' n s r c h']

/-- the model loaded for the union of two output sets serves both -/
theorem union_of_outputs (b : Book F) (k1 k2 : CellDef F → Bool) (n s r c : Nat)
    (h : ClosedFor b k1 s r c ∨ ClosedFor b k2 s r c) :
    value (restrictBook b (fun d => k1 d || k2 d)) n s r c = value b n s r c := by
  apply sub_model_equals_full
  rcases h with h | h
  · exact closed_mono b k1 _ s r c (fun d hd => by simp [hd]) h
  · exact closed_mono b k2 _ s r c (fun d hd => by simp [hd]) h

omit [Num F] in
/-- the full model is closed for every address (non-vacuity of `ClosedFor`) -/
theorem closed_all (b : Book F) (s r c : Nat) : ClosedFor b (fun _ => true) s r c :=
  fun _ _ _ _ _ _ _ => rfl
end XL.C15
