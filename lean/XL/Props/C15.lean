import XL.Proofs.Book
/-!
# C15 — a model loaded from chosen outputs equals the full model on them

`restrictBook b keep` is the model `from_ranges(*outputs)` builds: it keeps some of the cell
definitions.  `RelevantTo d s r c` : the definition `d` sits at the address or is an array formula
spilling over it.  The theorem says what the work-list of `complete` must achieve (keep every
definition relevant to an address the outputs reach) and that this is enough.
-/
namespace XL.C15
open XL
variable {F : Type} [Num F]

/-- **nothing the sub-model omits matters**: if every definition relevant to an address reachable from
an output is kept, the output has the same value as in the full model (any evaluation depth) -/
theorem sub_model_equals_full (b : Book F) (keep : CellDef F → Bool) (n s r c : Nat)
    (hclosed : ∀ s' r' c', Reaches b (s, r, c) (s', r', c') → ∀ d ∈ b.cells, RelevantTo d s' r' c' → keep d = true) :
    value (restrictBook b keep) n s r c = value b n s r c := sub_eq_full b keep n s r c hclosed

/-- keeping everything is the identity: completing a complete model changes nothing -/
theorem restrict_all (b : Book F) : restrictBook b (fun _ => true) = b := by
  cases b; simp [restrictBook]

/-- restricting twice with the same predicate is restricting once (idempotence of completion) -/
theorem restrict_idempotent (b : Book F) (keep : CellDef F → Bool) :
    restrictBook (restrictBook b keep) keep = restrictBook b keep := by
  simp [restrictBook]

end XL.C15
