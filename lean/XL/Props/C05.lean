import XL.Proofs.Arr
import XL.Model.Eval
import XL.Props.C02
/-!
# C05 — array evaluation is the scalar rule lifted element-wise and fitted

`mapN` / `map2` model `np.vectorize(safe_eval)(*args)` — and, since the repair of the separate
path for 32 and more arguments, that path too (the check compares both with the model at argument
counts 1, 2, 3, 31, 32, 33, 40).  `fit` models `_reshape_array_as_excel` / `Array.reshape`.

The fitting rule of the property (`fitSpec`) is proved for every value whose element count differs
from the destination's, and for equal shapes.  Equal element counts with a different shape are
**refilled row-major** by the code (`np.reshape` succeeds): `fit_sizeeq_counterexample` pins that, the
check reports it as the known finding `fit-sizeeq`.
-/
namespace XL.C05
open XL

/-! ### broadcasting -/

/-- **a scalar, a single row or a single column stretches to its partner** -/
theorem stretch {α} (d : α) (i j : Nat) :
    (∀ a : α, Arr.bget [[a]] d i j = a) ∧
    (∀ row : List α, row.length ≠ 1 → Arr.bget [row] d i j = row.getD j d) ∧
    (∀ a : Arr α, a.nrows ≠ 1 → a.ncols = 1 → a.bget d i j = a.at d i 0) ∧
    (∀ a : Arr α, a.nrows ≠ 1 → a.ncols ≠ 1 → a.bget d i j = a.at d i j) :=
  ⟨fun a => bget_scalar a d i j, fun row h => bget_row row d i j h, fun a h1 h2 => bget_col a d i j h1 h2,
   fun a h1 h2 => bget_full a d i j h1 h2⟩

/-- two shapes are compatible iff in each dimension they are equal or one of them is 1 -/
theorem compatible_shapes (r1 c1 r2 c2 R C : Nat) :
    bshape [(r1, c1), (r2, c2)] = some (R, C) ↔ bdim r1 r2 = some R ∧ bdim c1 c2 = some C :=
  bshape_pair r1 c1 r2 c2 R C

theorem dim_rule (m n k : Nat) :
    bdim m n = some k ↔ (m = n ∧ k = m) ∨ (m ≠ n ∧ m = 1 ∧ k = n) ∨ (m ≠ n ∧ m ≠ 1 ∧ n = 1 ∧ k = m) := bdim_some m n k

/-- **position by position the result is the scalar result for the corresponding elements** — any
element-wise function of any number of arguments -/
theorem elementwise {α γ} (f : List α → γ) (d : α) (dg : γ) (args : List (Arr α)) (R C : Nat)
    (hs : bshape (args.map fun a => (a.nrows, a.ncols)) = some (R, C)) :
    ∃ res, mapN f d args = some res ∧ res.nrows = R ∧
      ∀ i j, i < R → j < C → res.at dg i j = f (args.map fun a => a.bget d i j) :=
  mapN_pointwise f d dg args R C hs

/-- … and every binary operator (`+ - * / ^ & = <> < > <= >=`) -/
theorem operator_elementwise {F : Type} [Num F] (o : BinOp) (x y : Res F) (R C : Nat)
    (hs : bshape [(x.toArr.nrows, x.toArr.ncols), (y.toArr.nrows, y.toArr.ncols)] = some (R, C)) :
    ∃ res, evalBin o x y = some (.arr res) ∧ res.nrows = R ∧
      ∀ i j, i < R → j < C → res.at .blank i j = applyBin o (x.toArr.bget .blank i j) (y.toArr.bget .blank i j) := by
  obtain ⟨res, h1, h2, h3⟩ := map2_pointwise (applyBin o) (.blank : Val F) .blank .blank x.toArr y.toArr R C hs
  exact ⟨res, by simp [evalBin, h1], h2, h3⟩

/-- shapes that are not compatible raise the broadcast error, and nothing else does -/
theorem incompatible_iff {α γ} (f : List α → γ) (d : α) (args : List (Arr α)) :
    mapN f d args = none ↔ bshape (args.map fun a => (a.nrows, a.ncols)) = none := mapN_none_iff f d args

/-- **few or very many arguments**: appending any number of scalar arguments that the function
ignores gives the same array -/
theorem arity_irrelevant {α γ} (f g : List α → γ) (d : α) (args : List (Arr α)) (extra : List α)
    (hfg : ∀ l, g (l ++ extra) = f l) :
    mapN g d (args ++ extra.map fun x => [[x]]) = mapN f d args := mapN_extra_scalars f g d args extra hfg

/-! ### fitting a result to its destination -/

/-- **a scalar fills, a single row or column repeats, surplus is dropped, unreached cells are `#N/A`**
(`fitSpec`) — for every value whose element count differs from the destination's … -/
theorem fit_spec_partial {α} (na : α) (R C : Nat) (v : Arr α) (h : v.nrows * v.ncols ≠ R * C)
    (i j : Nat) (hi : i < R) (hj : j < C) : (fit na R C v).at na i j = fitSpec na v i j :=
  fit_spec_of_size_ne na R C v h i j hi hj

/-- … and for a value that has the shape of the destination -/
theorem fit_spec_same_shape {α} (na : α) (v : Arr α) (hwf : v.WF) (i j : Nat) (hi : i < v.nrows) (hj : j < v.ncols) :
    (fit na v.nrows v.ncols v).at na i j = fitSpec na v i j := XL.fit_spec_same_shape na v hwf i j hi hj

/-- what `fitSpec` says, case by case -/
theorem fitSpec_cases {α} (na : α) (i j : Nat) :
    (∀ a : α, fitSpec na [[a]] i j = a) ∧
    (∀ v : Arr α, v.nrows ≠ 1 → v.nrows ≤ i → fitSpec na v i j = na) ∧
    (∀ v : Arr α, v.ncols ≠ 1 → v.ncols ≤ j → fitSpec na v i j = na) := by
  refine ⟨?_, ?_, ?_⟩
  · intro a; simp [fitSpec, Arr.nrows, Arr.ncols, bget_scalar]
  · intro v h1 h2
    have : ¬ (v.nrows = 1 ∨ i < v.nrows) := by omega
    simp [fitSpec, this]
  · intro v h1 h2
    have : ¬ (v.ncols = 1 ∨ j < v.ncols) := by omega
    simp [fitSpec, this]

/-- **the excluded class** (same element count, different shape): a 1×3 row stored into a 3×1 range
becomes the column 1;2;3 instead of 1;1;1, a 2×3 value stored into 3×2 is refilled -/
theorem fit_sizeeq_counterexample :
    fit 0 3 1 [[1, 2, 3]] = [[1], [2], [3]] ∧ (fitSpec 0 [[1, 2, 3]] 1 0 = 1) ∧
    fit 0 3 2 [[1, 2, 3], [4, 5, 6]] = [[1, 2], [3, 4], [5, 6]] ∧ fitSpec 0 [[1, 2, 3], [4, 5, 6]] 1 0 = 4 := by
  decide

/-! ### non-vacuity -/

example : mapN (fun l => l.foldl (· + ·) 0) 0 [[[1, 2, 3]], [[10], [20]], [[100]]] =
    some [[111, 112, 113], [121, 122, 123]] := by decide

example : bshape [(1, 3), (2, 1), (1, 1)] = some (2, 3) ∧ bshape [(2, 3), (3, 2)] = none := by decide

example : fit 0 2 3 [[1, 2]] = [[1, 2, 0], [1, 2, 0]] ∧ fit 0 2 2 [[1, 2, 3], [4, 5, 6], [7, 8, 9]] = [[1, 2], [4, 5]] ∧
    fit 0 2 2 [[7]] = [[7, 7], [7, 7]] := by decide

example : Arr.WF ([[1, 2], [3, 4]] : Arr Nat) := by
  refine ⟨by decide, by decide, ?_⟩
  intro r hr
  simp at hr
  rcases hr with rfl | rfl <;> rfl

end XL.C05
