import XL.Model.FnClass
import XL.Proofs.Fn
import XL.Proofs.Ops
/-!
# C11 — worksheet functions are total and never lose an error value

In the model a function is a total map from argument lists to `Option (Except EvalErr (Res F))`: a
value of the model **is** an Excel value (number, text, logical, blank, error, or an array of these),
so "returns Excel values only" holds of the model by typing.  What remains to be said:

* the only failure the element-wise combinator can have is the broadcast error of incompatible array
  shapes (`lift_only_broadcast`), and it has it exactly then (`XL.C05.incompatible_iff`) — on the
  implementation this is the known finding `broadcast-error`;
* **errors are not lost**: the coercion combinators return the first error of their operands
  (`num1_error`, `num2_error_left`, `num2_error_right`), aggregations return the first error anywhere
  in their arguments (`agg_error`), text functions the first error among theirs (`text_error`),
  `CONCAT` / `TEXTJOIN` likewise;
* the documented exemptions really are the only places where an error does not come out: the `IS…`
  functions always answer a logical (`is_answers_logical`), `COUNT…` a number (`count_answers_number`),
  `IFERROR` / `IFNA` replace it (`iferror_replaces`), an unselected branch is not looked at (C10);
* every name of the implementation's function table (regenerated on every run) is classified
  (`table_classified`, `classes_disjoint`, `no_stale_names`): a function added to the library breaks this
  theorem until someone decides how it is covered.  For the `swept` class (≈ 100 functions: financial,
  distributions, date parts, formats, matrices) totality and error propagation are established by
  enumeration on the implementation only — **partial**.
-/
namespace XL.C11
open XL XL.Generated
variable {F : Type} [Num F]

/-! ### the table -/

theorem table_classified :
    ∀ n ∈ functionNames, n ∈ modelledFunctions ++ structuralFunctions ++ sweptFunctions := by decide +kernel

theorem no_stale_names :
    ∀ n ∈ modelledFunctions ++ structuralFunctions ++ sweptFunctions, n ∈ functionNames := by decide +kernel

theorem classes_disjoint :
    (∀ n ∈ modelledFunctions, n ∉ structuralFunctions ∧ n ∉ sweptFunctions) ∧ (∀ n ∈ structuralFunctions, n ∉ sweptFunctions) := by
  decide +kernel

/-! ### the only failure -/

theorem lift_only_broadcast (f : List (Val F) → Val F) (args : List (Res F)) (e : EvalErr) (h : liftN f args = .error e) :
    e = .broadcast := by
  unfold liftN at h
  split at h <;> cases h
  rfl

/-! ### errors propagate -/

theorem num1_error (f : F → Val F) (e : Err) : num1 f (.err e) = .err e := rfl

theorem num2_error_left (f : F → F → Val F) (e : Err) (b : Val F) : num2 f (.err e) b = .err e := rfl

theorem num2_error_right (f : F → F → Val F) (a : Val F) (e : Err) (ha : ¬ IsErr a) : num2 f a (.err e) = .err e := by
  have := firstErr_right a e ha
  simp [num2, this]

/-- a text, non-numeric, is `#VALUE!` for every numeric function; the result is never a non-Excel value -/
theorem num1_text (f : F → Val F) (s : String) (h : (Num.ofText s : Option F) = none) : num1 f (.text s) = .err .value := by
  simp [num1, toNum, h]

/-- **aggregations**: the first error anywhere in the arguments is the result (every function of `aggFn`) -/
theorem agg_error (args : List (Res F)) (e : Err) (h : firstErr (flatVals args) = some e) : aggNums args = .error e := by
  simp [aggNums, h]

theorem agg_error_result (name : String) (args : List (Res F)) (e : Err) (h : firstErr (flatVals args) = some e)
    (v : Val F) (hv : aggFn name args = some v) : v = .err e := by
  have ha := agg_error args e h
  unfold aggFn at hv
  simp only [ha] at hv
  split at hv <;> first | (cases hv; rfl) | cases hv

/-- **text functions**: the first error among the arguments is the result -/
theorem text_error (name : String) (args : List (Val F)) (e : Err) (h : firstErr args = some e)
    (hn : name ∈ ["LEN", "LEFT", "RIGHT", "MID", "UPPER", "LOWER", "TRIM", "FIND", "SEARCH", "REPLACE", "SUBSTITUTE", "VALUE", "CONCATENATE"]) :
    textFn name args = some (.err e) := by
  simp only [textFn, h, hn, if_true]

theorem concat_error (args : List (Res F)) (e : Err) (h : firstErr (flatVals args) = some e) : concatFn args = .err e := by
  simp [concatFn, h]

theorem textjoin_error (d i : Val F) (args : List (Res F)) (e : Err) (h : firstErr (d :: i :: flatVals args) = some e) :
    textjoinFn d i args = .err e := by
  simp [textjoinFn, h]

theorem xor_error (args : List (Res F)) (e : Err) (h : firstErr (flatVals args) = some e) : xorFn args = .err e := by
  simp [xorFn, h]

theorem switch_error (e : Err) (cases : List (Val F)) (c v : Val F) :
    switchFn (.num Num.zero : Val F) (.err e :: v :: cases) = .err e := by simp [switchFn]

/-! ### the exemptions -/

/-- inspection functions answer a logical for every value, errors included -/
theorem is_answers_logical (name : String) (v r : Val F) (h : isFn name v = some r) : ∃ b, r = .bool b := by
  unfold isFn at h
  split at h <;> first | (cases h; exact ⟨_, rfl⟩) | cases h

/-- counting functions answer a number whatever they are given -/
theorem count_answers_number (name : String) (args : List (Res F)) (r : Val F) (h : countFn name args = some r) : ∃ x, r = .num x := by
  unfold countFn at h
  split at h <;> first | (cases h; exact ⟨_, rfl⟩) | cases h

/-- `IFERROR` replaces an error by the alternative (and `IFNA` only `#N/A`) -/
theorem iferror_replaces (e : Err) (d : Val F) (hd : ∀ x, d ≠ .num x) (hb : d ≠ .blank) :
    iferrorElem (.err e : Val F) d = d ∧ ifnaElem (.err .na : Val F) d = d ∧ (e ≠ .na → ifnaElem (.err e : Val F) d = .err e) := by
  refine ⟨?_, ?_, ?_⟩
  · cases d <;> simp_all [iferrorElem]
  · cases d <;> simp_all [ifnaElem]
  · intro he; cases e <;> simp_all [ifnaElem]

/-! ### non-vacuity -/
example : "SUM" ∈ functionNames ∧ "SUM" ∈ modelledFunctions ∧ "NPV" ∈ sweptFunctions ∧ "NOW" ∈ structuralFunctions := by decide +kernel

end XL.C11
